------------------------- MODULE SeedRegistryTrace -------------------------
(***************************************************************************)
(* Trace validation of shared::hybrid::SeedRegistry / SeedSnapshot against *)
(* SeedRegistry.tla.  The driver (`kverif seedreg`) calls the real public  *)
(* methods and logs one event per call, at the call's return:              *)
(*   reset(run)                                                            *)
(*   key(raw, norm, t, got)        next_event_key(raw, t); `norm` is the   *)
(*                                 index of the stream the spelling `raw`  *)
(*                                 denotes (spellings: s, <s>, :s, " <:s> ")*)
(*   occ(key, tr, p, ok, id, err)  register_occurrence                     *)
(*   stat(tr, p, ok, id, err)      register_static                         *)
(*   excl(g, tr, p, ok, id, err)   register_exclusive                      *)
(*   snap(ids, ok, id, err, recs, bytr, groups)   snapshot_for_ids         *)
(*   snapall(recs, bytr, groups)                  snapshot_all             *)
(*   specs(items, ok, id, err, recs, bytr, groups)   SeedSnapshot::        *)
(*        from_seed_specs; items = the specs flattened in order            *)
(*   pseeds(items, ok, id, err, recs, bytr, groups)  SeedSnapshot::        *)
(*        from_probability_seeds                                           *)
(* The abstract registry `reg` is advanced by the operators of             *)
(* SeedRegistry.tla themselves; every reply and every snapshot is compared *)
(* with what they yield, and RegOK / Extends (identities never recycled)   *)
(* are evaluated at every step.  A run that disagrees prints FAIL and is   *)
(* skipped up to the next reset.                                           *)
(***************************************************************************)
EXTENDS SeedRegistry, Json, IOUtils, SequencesExt

Rec == ndJsonDeserialize(IOEnv.TRACE)

VARIABLES l, run, bad          \* reg, ret are SeedRegistry's own variables (ret is not used: replies are in the trace)
tvars == <<l, run, reg, ret, bad>>

Ev == Rec[l]
B(s) == s = "t"
Reply(e) == [ok |-> B(e.ok), id |-> e.id, err |-> e.err]
StreamName(n) == IF n = 1 THEN "s1" ELSE IF n = 2 THEN "s2" ELSE "s3"
Sorted(S) == SetToSortSeq(S, LAMBDA a, b : a < b)

\* a recorded snapshot against the identifiers the specification says it holds
WhySnapshot(e, R, ids) ==
  LET recs == {[id |-> r.id, triple |-> r.tr, p |-> r.p, kind |-> r.kind, ev |-> r.ev] : r \in ToSet(e.recs)} IN
  IF Len(e.recs) # Cardinality(ToSet(e.recs)) THEN "record-listed-twice"
  ELSE IF {r.id : r \in recs} # ids THEN "snapshot-holds-other-identifiers"
  ELSE IF recs # SnapRecords(R, ids) THEN "record-differs-from-registration"
  ELSE IF {[triple |-> b.tr, ids |-> b.ids] : b \in ToSet(e.bytr)}
            # {[triple |-> b.triple, ids |-> Sorted(b.ids)] : b \in SnapByTriple(R, ids)} THEN "triple-index-differs"
  ELSE IF {[g |-> b.g, ids |-> b.ids] : b \in ToSet(e.groups)}
            # {[g |-> b.g, ids |-> Sorted(b.ids)] : b \in SnapGroups(R, ids)} THEN "group-index-differs"
  ELSE ""

\* outcome of one recorded call: [reg |-> next registry, why |-> "" or the disagreement]
Judge(e, R) ==
  CASE e.ev = "key" ->
         LET o == NextEventKey(R, StreamName(e.norm), e.t) IN
         [reg |-> o.reg, why |-> IF e.got = o.key THEN "" ELSE "event-key-differs"]
    [] e.ev = "occ" ->
         LET o == RegisterOccurrence(R, e.key, e.tr, e.p) IN
         [reg |-> o.reg, why |-> IF Reply(e) = o.ret THEN "" ELSE "occurrence-reply-differs"]
    [] e.ev = "stat" ->
         LET o == RegisterStatic(R, e.tr, e.p) IN
         [reg |-> o.reg, why |-> IF Reply(e) = o.ret THEN "" ELSE "static-reply-differs"]
    [] e.ev = "excl" ->
         LET o == RegisterExclusive(R, e.g, e.tr, e.p) IN
         [reg |-> o.reg, why |-> IF Reply(e) = o.ret THEN "" ELSE "exclusive-reply-differs"]
    [] e.ev = "snap" ->
         LET o == SnapshotForIds(R, ToSet(e.ids)) IN
         [reg |-> R, why |-> IF Reply(e) # o.ret THEN "snapshot-reply-differs"
                             ELSE IF o.ret.ok THEN WhySnapshot(e, R, o.ids) ELSE ""]
    [] e.ev = "specs" ->          \* SeedSnapshot::from_seed_specs on its own fresh registry
         LET o == FromSeedSpecs(e.items) IN
         [reg |-> R, why |-> IF Reply(e) # o.ret THEN "from-seed-specs-reply-differs"
                             ELSE IF ~o.ret.ok THEN ""
                             ELSE IF ~RegOK(o.reg) THEN "registry-invariant"
                             ELSE WhySnapshot(e, o.reg, DOMAIN o.reg.records)]
    [] e.ev = "pseeds" ->         \* SeedSnapshot::from_probability_seeds (a map: each triple once)
         LET o == StaticAll(EmptyReg, SetToSortSeq(ToSet(e.items), LAMBDA x, y : x.tr < y.tr)) IN
         [reg |-> R, why |-> IF Reply(e) # o.ret THEN "from-probability-seeds-reply-differs"
                             ELSE IF ~o.ret.ok THEN ""
                             ELSE WhySnapshot(e, o.reg, DOMAIN o.reg.records)]
    [] e.ev = "snapall" ->
         [reg |-> R, why |-> WhySnapshot(e, R, SnapshotAll(R).ids)]
    [] OTHER -> [reg |-> R, why |-> "unknown-event"]

Init0 == l = 1 /\ run = 0 /\ reg = EmptyReg /\ ret = Ok(0) /\ bad = FALSE

Reset == Ev.ev = "reset" /\ run' = Ev.run /\ reg' = EmptyReg /\ bad' = FALSE
Skip  == Ev.ev # "reset" /\ bad /\ UNCHANGED <<run, reg, bad>>
Step  == /\ Ev.ev # "reset" /\ ~bad
         /\ LET j == Judge(Ev, reg)
                why == IF j.why # "" THEN j.why
                       ELSE IF ~RegOK(j.reg) THEN "registry-invariant"
                       ELSE IF ~Extends(reg, j.reg) THEN "identity-recycled"
                       ELSE "" IN
            IF why = "" THEN reg' = j.reg /\ UNCHANGED <<run, bad>>
            ELSE PrintT(<<"FAIL", run, Ev.ev, why, l>>) /\ bad' = TRUE /\ UNCHANGED <<run, reg>>

TNext == l <= Len(Rec) /\ l' = l + 1 /\ ret' = ret /\ (Reset \/ Skip \/ Step)
TSpec == Init0 /\ [][TNext]_tvars

Consumed == IF TLCGet("stats").diameter - 1 = Len(Rec) THEN TRUE
            ELSE PrintT(<<"STUCK", TLCGet("stats").diameter, Len(Rec)>>) /\ FALSE
=============================================================================
