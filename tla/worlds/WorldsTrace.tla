---------------------------- MODULE WorldsTrace ----------------------------
(***************************************************************************)
(* Trace validation for C06.  A trace is a concatenation of runs           *)
(*   reset(run, rules, certain, seeds, den, model)                         *)
(*   prob(mode, ret, grid, out, new)*     one per provenance mode          *)
(* recorded from the real Reasoner::infer_new_facts_with_provenance.       *)
(* `out` lists every fact of the dataset after inference with the          *)
(* probability recovered from its tag as a scaled integer                  *)
(*   dnf, sdd, topk : value * den^|U|      minmax : value * den            *)
(*   bool           : 0 / 1                addmult: value * den^|U|,       *)
(*                                                  logged but not judged  *)
(* `new` is the list of facts the call returned.  The reset event makes    *)
(* TLC enumerate all 2^|U| worlds once (Worlds!WorldModels); every prob    *)
(* event is then judged against P / MM / Derivable.  Each mode of a run is *)
(* judged on its own: a mismatch prints <<"FAIL", run, mode, reason>> and  *)
(* validation continues (the tuples are kept short: TLC wraps long ones).   *)
(* Cases outside the property's preconditions are reported as              *)
(* <<"INFO", run, "skipped", mode, why>> with why in                       *)
(*   scale        den^|U| does not fit TLC's 32-bit integers               *)
(*   overlap      certain and uncertain inputs overlap / repeated seed     *)
(*   range        a probability outside [0,1]                              *)
(*   unsafe       a head or negated variable not bound by a premise        *)
(*   unstratified negation that is not stratified (see WorldsDatalog)      *)
(*   naf          negation under a mode whose documented meaning does not  *)
(*                cover it (minmax, topk, addmult)                         *)
(***************************************************************************)
EXTENDS Worlds, Json, IOUtils, TLC

Rec == ndJsonDeserialize(IOEnv.TRACE)

VARIABLES l,      \* next trace line
          cs,     \* the current case: [run, R, C, U, num, den, pre, hasmodel, model]
          mods,   \* world models of the current case
          wt,     \* world weights
          tmods,  \* threshold models (min-max)
          bmod    \* model of the inputs with positive probability (Boolean)
vars == <<l, cs, mods, wt, tmods, bmod>>

ToSet(sq) == {sq[i] : i \in 1..Len(sq)}
T3(x) == <<x[1], x[2], x[3]>>

Ev == Rec[l]

\* ---------------------------------------------------------------- preconditions
SeedFacts(e) == {T3(x) : x \in ToSet(e.seeds)}
Pre(e) ==
  LET R == e.rules
      C == {T3(x) : x \in ToSet(e.certain)}
      U == SeedFacts(e)
  IN  IF ~(e.den \in {2, 4, 8, 16}) \/ ~Fits(e.den, Cardinality(U)) THEN "scale"
      ELSE IF C \cap U # {} \/ Cardinality(U) # Len(e.seeds) THEN "overlap"
      ELSE IF \E x \in ToSet(e.seeds) : x[4] < 0 \/ x[4] > e.den THEN "range"
      ELSE IF \E i \in 1..Len(R) : ~Safe(R[i]) THEN "unsafe"
      ELSE IF ~Stratified(R) THEN "unstratified"
      ELSE ""

\* modes whose documented meaning does not cover negation-as-failure
PositiveOnly(mode) == mode \in {"minmax", "topk", "addmult"}

\* ---------------------------------------------------------------- judging one prob event
OutFacts(e) == {T3(x) : x \in ToSet(e.out)}
Val(e, f)   == (CHOOSE x \in ToSet(e.out) : T3(x) = f)[4]

Expected(mode, f) ==
  CASE mode \in {"dnf", "sdd", "topk", "addmult"} -> P(f, mods, wt)
    [] mode = "minmax" -> MM(f, tmods)
    [] mode = "bool"   -> IF f \in bmod THEN 1 ELSE 0

Universe(mode) == IF mode = "bool" THEN bmod ELSE Possible(mods)

Reason(e) ==
  LET mode == e.mode
      O    == OutFacts(e)
      In   == cs.C \cup cs.U
  IN  IF e.ret # "ok" THEN e.ret
      ELSE IF ~e.grid /\ mode # "addmult" THEN "off-grid"
      ELSE IF Len(e.out) # Cardinality(O) THEN "duplicate-fact"
      ELSE IF ~(In \subseteq O) THEN "input-fact-lost"
      ELSE IF ~(O \subseteq (Possible(mods) \cup In)) THEN "spurious-fact"
      ELSE IF \E f \in Universe(mode) : Expected(mode, f) > 0 /\ f \notin O THEN "missing-fact"
      ELSE IF {T3(x) : x \in ToSet(e.new)} # O \ In \/ Len(e.new) # Cardinality(O \ In) THEN "returned-list-differs"
      ELSE IF mode = "addmult" THEN ""
      ELSE IF mode = "topk" THEN
             IF \E f \in O : Val(e, f) > Expected(mode, f) THEN "topk-above-exact"
             ELSE IF \E f \in O : (Val(e, f) = 0) # (Expected(mode, f) = 0) THEN "topk-zero-differs"
             ELSE ""
      ELSE IF \E f \in O : Val(e, f) # Expected(mode, f) THEN
             (IF mode = "minmax" THEN "wrong-minmax" ELSE IF mode = "bool" THEN "wrong-derivability" ELSE "wrong-probability")
      ELSE ""

\* a witness for the diagnostic line: <<s, p, o, observed, expected>> (observed -1 = not reported)
Witness(e, why) ==
  LET O == OutFacts(e)
      pick(S) == IF S = {} THEN <<>> ELSE
                 LET f == CHOOSE g \in S : TRUE
                 IN  <<f[1], f[2], f[3], IF f \in O THEN Val(e, f) ELSE -1,
                       IF f \in Possible(mods) \cup cs.C \cup cs.U THEN Expected(e.mode, f) ELSE 0>>
  IN  CASE why = "missing-fact" -> pick({f \in Universe(e.mode) : Expected(e.mode, f) > 0 /\ f \notin O})
        [] why = "spurious-fact" -> pick(O \ (Possible(mods) \cup cs.C \cup cs.U))
        [] why = "input-fact-lost" -> pick((cs.C \cup cs.U) \ O)
        [] why \in {"wrong-probability", "wrong-minmax", "wrong-derivability"} ->
             pick({f \in O : Val(e, f) # Expected(e.mode, f)})
        [] why = "topk-above-exact" -> pick({f \in O : Val(e, f) > Expected(e.mode, f)})
        [] why = "topk-zero-differs" -> pick({f \in O : (Val(e, f) = 0) # (Expected(e.mode, f) = 0)})
        [] OTHER -> <<>>

\* prediction of the code-shaped model (L2 cases only): scaled P for every fact it ends with
ModelAgrees(e) ==
  (cs.hasmodel /\ e.mode = "dnf" /\ e.ret = "ok") =>
     {<<x[1], x[2], x[3], x[4]>> : x \in ToSet(e.out)} = {<<x[1], x[2], x[3], x[4]>> : x \in ToSet(cs.model)}

\* ---------------------------------------------------------------- the trace machine
Empty == [run |-> 0, R |-> <<>>, C |-> {}, U |-> {}, num |-> <<>>, den |-> 2, pre |-> "", hasmodel |-> FALSE, model |-> <<>>]

Init == /\ l = 1 /\ cs = Empty
        /\ mods = <<>> /\ wt = <<>> /\ tmods = <<>> /\ bmod = {}

Reset ==
  /\ Ev.ev = "reset"
  /\ LET pre == Pre(Ev)
         C == {T3(x) : x \in ToSet(Ev.certain)}
         U == SeedFacts(Ev)
         num == [u \in U |-> (CHOOSE x \in ToSet(Ev.seeds) : T3(x) = u)[4]]
     IN  /\ cs' = [run |-> Ev.run, R |-> Ev.rules, C |-> C, U |-> U, num |-> num, den |-> Ev.den,
                   pre |-> pre, hasmodel |-> Ev.hasmodel, model |-> Ev.model]
         /\ IF pre = "" THEN /\ mods' = WorldModels(Ev.rules, C, U)
                             /\ wt' = WorldWeights(U, num, Ev.den)
                             /\ tmods' = ThresholdModels(Ev.rules, C, U, num, Ev.den)
                             /\ bmod' = BoolModel(Ev.rules, C, U, num)
            ELSE mods' = <<>> /\ wt' = <<>> /\ tmods' = <<>> /\ bmod' = {}

Prob ==
  /\ Ev.ev = "prob"
  /\ IF cs.pre # "" THEN PrintT(<<"INFO", cs.run, "skipped", Ev.mode, cs.pre>>)
     ELSE IF PositiveOnly(Ev.mode) /\ NegIdx(cs.R) # {} THEN PrintT(<<"INFO", cs.run, "skipped", Ev.mode, "naf">>)
     ELSE LET why == Reason(Ev) IN
          /\ IF why = "" THEN TRUE
             ELSE /\ PrintT(<<"FAIL", cs.run, Ev.mode, why>>)
                  /\ PrintT("WITNESS " \o ToString(cs.run) \o " " \o Ev.mode \o " " \o ToString(Witness(Ev, why)))
          /\ IF why # "" \/ ModelAgrees(Ev) THEN TRUE ELSE PrintT(<<"MODELDIFF", cs.run>>)
  /\ UNCHANGED <<cs, mods, wt, tmods, bmod>>

Next == /\ l <= Len(Rec)
        /\ l' = l + 1
        /\ (Reset \/ Prob)

Spec == Init /\ [][Next]_vars

Consumed == IF TLCGet("stats").diameter - 1 = Len(Rec) THEN TRUE
            ELSE PrintT(<<"STUCK", TLCGet("stats").diameter, Len(Rec)>>) /\ FALSE
=============================================================================
