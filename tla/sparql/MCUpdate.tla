------------------------------ MODULE MCUpdate ------------------------------
(* TLC instance of UpdateImpl: every dataset over a 5-quad universe (default graph, one named graph, a literal
   object, a blank node whose label looks like an allocated one) x a menu of operations covering the six update
   forms x both starting values of the blank-node counter x every order of applying deletions / insertions and
   of instantiating solutions.  Lexical forms are those of bin/checks/sparqlgen.py, so that the instances can be
   printed as SPARQL text and replayed on the real engine (L2). *)
EXTENDS UpdateImpl, Json, SequencesExt

I1 == "http://e/i1"
I2 == "http://e/i2"
P1 == "http://e/p1"
P2 == "http://e/p2"
G1 == "http://e/g1"
L1 == "l1"
BN == "_:kolibrie-update-1-x"

Vv(n) == <<"v", n>>
Cc(x) == <<"c", x>>
Bb(x) == <<"b", x>>
DG == Cc("")
B(tps) == [t |-> "bgp", tps |-> tps]
J(ps) == [t |-> "join", ps |-> ps]
Gr(n, p) == [t |-> "graph", name |-> n, p |-> p]
U(ps) == [t |-> "union", ps |-> ps]
Unit == [t |-> "unit"]

xP1y == <<Vv("x"), Cc(P1), Vv("y")>>
yP1z == <<Vv("y"), Cc(P1), Vv("z")>>
xP2y == <<Vv("x"), Cc(P2), Vv("y")>>
WXY == J(<<B(<<xP1y>>)>>)

Op(f, d, i, w) == [form |-> f, del |-> d, ins |-> i, where |-> w, fails |-> FALSE]

MenuSeq == <<
  Op("insert_data", <<>>, << <<Cc(I2), Cc(P2), Cc(I2), DG>>, <<Cc(I1), Cc(P1), Cc(I2), Cc(G1)>> >>, Unit),
  Op("delete_data", << <<Cc(I1), Cc(P1), Cc(I2), DG>>, <<Cc(I1), Cc(P2), Cc(I2), Cc(G1)>> >>, <<>>, Unit),
  Op("insert_where", <<>>, << <<Vv("y"), Cc(P1), Vv("x"), DG>> >>, WXY),                                   \* literal subject is not produced
  Op("delete_where_short", << <<Vv("x"), Cc(P1), Vv("y"), DG>> >>, <<>>, WXY),
  Op("delete_insert_where", << <<Vv("x"), Cc(P1), Vv("y"), DG>> >>, << <<Vv("y"), Cc(P1), Vv("x"), DG>> >>, WXY),  \* swap
  Op("delete_insert_where", << <<Vv("x"), Cc(P1), Vv("y"), DG>> >>, << <<Vv("x"), Cc(P1), Vv("y"), DG>> >>, WXY),  \* delete and re-insert
  Op("insert_where", <<>>, << <<Vv("x"), Cc(P2), Bb("x"), DG>>, <<Bb("x"), Cc(P2), Vv("y"), DG>> >>, WXY),        \* one node per solution
  Op("insert_where", <<>>, << <<Bb("x"), Cc(P2), Cc(I1), DG>> >>, WXY),
  Op("insert_where", <<>>, << <<Vv("x"), Cc(P2), Vv("y"), Vv("y")>> >>, WXY),                               \* graph from a variable (literal: not produced)
  Op("delete_where", << <<Vv("x"), Cc(P2), Vv("y"), Cc(G1)>> >>, <<>>, J(<<Gr(Cc(G1), J(<<B(<<xP2y>>)>>))>>)),
  Op("delete_insert_where", << <<Vv("x"), Cc(P1), Vv("y"), DG>> >>, << <<Vv("x"), Cc(P2), Vv("z"), DG>> >>, J(<<B(<<xP1y, yP1z>>)>>)),
  \* the same solution twice (both UNION branches bind the same values): two occurrences, two fresh nodes
  Op("insert_where", <<>>, << <<Vv("x"), Cc(P2), Bb("x"), DG>> >>, J(<<U(<<J(<<B(<<xP1y>>)>>), J(<<B(<<xP1y>>)>>)>>)>>)),
  [Op("insert_where", <<>>, << <<Vv("x"), Cc(P2), Vv("y"), DG>> >>, WXY) EXCEPT !.fails = TRUE],
  [Op("delete_insert_where", << <<Vv("x"), Cc(P1), Vv("y"), DG>> >>, << <<Vv("x"), Cc(P2), Vv("y"), DG>> >>, WXY) EXCEPT !.fails = TRUE]
>>
MenuOps == {MenuSeq[i] : i \in 1..Len(MenuSeq)}

Universe == {<<I1, P1, I2, "">>, <<I2, P1, I1, "">>, <<I1, P1, L1, "">>, <<I1, P2, I2, G1>>, <<I1, P2, BN, "">>}
AllDatasets == {[quads |-> q, graphs |-> {x[4] : x \in {y \in q : y[4] # ""}}] : q \in SUBSET Universe}
Kinds == [x \in {I1, I2, P1, P2, G1, L1, BN} |-> IF x = L1 THEN "lit" ELSE IF x = BN THEN "bn" ELSE "iri"]

\* L2: one line per (dataset, operation) with the model's predicted outcome, printed where the operation returns
AsSeq(S) == SetToSeq(S)
Emit == pc \in {"done", "rejected"} =>
          PrintT(<<"REPLAY", ToJson([quads |-> AsSeq(pre.quads), op |-> op, outcome |-> pc,
                                     post |-> AsSeq(quads), graphs |-> AsSeq(graphs), ins |-> ni, del |-> nd, fresh |-> AsSeq(ObsFresh)])>>)
\* the emitted line does not depend on the order of application when the requirement holds: one per (dataset, op, ctr)
=============================================================================
