---------------------------- MODULE LineageStore ----------------------------
(***************************************************************************)
(* Growth of the hybrid family: shared/src/hybrid.rs `LineageStore`, the   *)
(* hash-consed DAG of lineage formulas over seeds.  Code-shaped operators  *)
(* (`Intern`, `Literal`, `Not`, `Nary` = canonical_nary in the order of    *)
(* the code: annihilator, identity, flattening, sort + dedup, complement   *)
(* detection, 0 / 1 / many children), each                                 *)
(*     (store, arguments) |-> [st |-> store', id |-> handle]               *)
(* and the requirement they are checked against:                           *)
(*   Exact      the handle returned denotes the negation / conjunction /   *)
(*              disjunction of what the operands denote (truth tables      *)
(*              over the seeds, computed by TLC)                           *)
(*   Canonical  no two handles hold structurally equal nodes; children     *)
(*              precede parents; And/Or nodes have >= 2 strictly increasing*)
(*              children, none of them a constant or of the parent's kind  *)
(* A node is [k, s, c]: kind, seed (literals), children (0-based handles). *)
(* Handle 0 is FALSE, handle 1 is TRUE, node i is nodes[i + 1].            *)
(***************************************************************************)
EXTENDS Integers, FiniteSets, Sequences, SequencesExt, TLC

CONSTANTS Seeds, MaxNodes

NodeF == [k |-> "F", s |-> 0, c |-> <<>>]
NodeT == [k |-> "T", s |-> 0, c |-> <<>>]
EmptyStore == <<NodeF, NodeT>>
NodeOf(st, id) == st[id + 1]
Ids(st) == 0..(Len(st) - 1)
RangeOf(sq) == {sq[i] : i \in 1..Len(sq)}

Intern(st, n) ==
  IF \E i \in 1..Len(st) : st[i] = n
  THEN [st |-> st, id |-> (CHOOSE i \in 1..Len(st) : st[i] = n) - 1]
  ELSE [st |-> Append(st, n), id |-> Len(st)]

Literal(st, seed) == Intern(st, [k |-> "lit", s |-> seed, c |-> <<>>])

Not(st, id) ==
  LET n == NodeOf(st, id) IN
  IF n.k = "F" THEN [st |-> st, id |-> 1]
  ELSE IF n.k = "T" THEN [st |-> st, id |-> 0]
  ELSE IF n.k = "not" THEN [st |-> st, id |-> n.c[1]]
  ELSE Intern(st, [k |-> "not", s |-> 0, c |-> <<id>>])

\* canonical_nary
RECURSIVE Flatten(_, _, _)
Flatten(st, kind, items) ==
  IF items = <<>> THEN <<>>
  ELSE LET n == NodeOf(st, items[1]) IN
       (IF n.k = kind THEN n.c ELSE <<items[1]>>) \o Flatten(st, kind, Tail(items))
HasNot(st, id) == \E i \in 1..Len(st) : st[i] = [k |-> "not", s |-> 0, c |-> <<id>>]
NotOf(st, id)  == (CHOOSE i \in 1..Len(st) : st[i] = [k |-> "not", s |-> 0, c |-> <<id>>]) - 1
Nary(st, isAnd, items) ==
  LET identity    == IF isAnd THEN 1 ELSE 0
      annihilator == IF isAnd THEN 0 ELSE 1
      kind        == IF isAnd THEN "and" ELSE "or"
  IN
  IF annihilator \in RangeOf(items) THEN [st |-> st, id |-> annihilator]      \* any annihilator among the items ends it
  ELSE LET kept == SelectSeq(items, LAMBDA x : x # identity)
           set  == RangeOf(Flatten(st, kind, kept))
           flat == SetToSortSeq(set, LAMBDA a, b : a < b)
           clash == \E x \in set : \/ NodeOf(st, x).k = "not" /\ NodeOf(st, x).c[1] \in set
                                   \/ NodeOf(st, x).k # "not" /\ HasNot(st, x) /\ NotOf(st, x) \in set
       IN IF clash THEN [st |-> st, id |-> annihilator]
          ELSE IF Len(flat) = 0 THEN [st |-> st, id |-> identity]
          ELSE IF Len(flat) = 1 THEN [st |-> st, id |-> flat[1]]
          ELSE Intern(st, [k |-> kind, s |-> 0, c |-> flat])

\* ---- requirement
Worlds == SUBSET Seeds
RECURSIVE Den(_, _)
Den(st, id) ==
  LET n == NodeOf(st, id) IN
  CASE n.k = "F" -> {}
    [] n.k = "T" -> Worlds
    [] n.k = "lit" -> {w \in Worlds : n.s \in w}
    [] n.k = "not" -> Worlds \ Den(st, n.c[1])
    [] n.k = "and" -> {w \in Worlds : \A i \in 1..Len(n.c) : w \in Den(st, n.c[i])}
    [] n.k = "or"  -> {w \in Worlds : \E i \in 1..Len(n.c) : w \in Den(st, n.c[i])}

Canonical(st) ==
  /\ Len(st) >= 2 /\ st[1] = NodeF /\ st[2] = NodeT
  /\ \A i, j \in 1..Len(st) : st[i] = st[j] => i = j
  /\ \A i \in 1..Len(st) :
       LET n == st[i] IN
       /\ \A x \in RangeOf(n.c) : x < i - 1
       /\ n.k \in {"and", "or"} =>
            /\ Len(n.c) >= 2
            /\ \A a, b \in 1..Len(n.c) : a < b => n.c[a] < n.c[b]
            /\ \A x \in RangeOf(n.c) : NodeOf(st, x).k \notin {"F", "T", n.k}
       /\ n.k = "not" => Len(n.c) = 1 /\ NodeOf(st, n.c[1]).k \notin {"F", "T", "not"}

\* LineageStore::metadata: what evaluation strategies are chosen by (has_cycle is FALSE for every Canonical store:
\* children precede their parents)
RECURSIVE Reach(_, _)
Reach(st, id) == {id} \cup UNION {Reach(st, x) : x \in RangeOf(NodeOf(st, id).c)}
Meta(st, id, exclusive) ==
  LET r  == Reach(st, id)
      hn == \E x \in r : NodeOf(st, x).k = "not"
  IN [neg |-> hn, excl |-> \E x \in r : NodeOf(st, x).k = "lit" /\ NodeOf(st, x).s \in exclusive, cyc |-> FALSE, mono |-> ~hn]
\* a formula reported monotone denotes a monotone function: adding seeds to a world never falsifies it
MonotoneSound(st, id) == Meta(st, id, {}).mono => \A w \in Den(st, id), v \in Worlds : w \subseteq v => v \in Den(st, id)

\* ---- state machine for the exhaustive check
VARIABLES store, last
lvars == <<store, last>>
LInit == store = EmptyStore /\ last = [op |-> "init", args |-> <<>>, id |-> 0]
Bound == Len(store) < MaxNodes
DoLit == Bound /\ \E s \in Seeds : LET o == Literal(store, s) IN store' = o.st /\ last' = [op |-> "lit", args |-> <<s>>, id |-> o.id]
DoNot == Bound /\ \E x \in Ids(store) : LET o == Not(store, x) IN store' = o.st /\ last' = [op |-> "not", args |-> <<x>>, id |-> o.id]
DoNary(isAnd) == Bound /\ \E x, y \in Ids(store) :
                   \E items \in {<<x, y>>, <<x, y, x>>, <<x>>} :
                     LET o == Nary(store, isAnd, items) IN
                     store' = o.st /\ last' = [op |-> IF isAnd THEN "and" ELSE "or", args |-> items, id |-> o.id]
LNext == DoLit \/ DoNot \/ DoNary(TRUE) \/ DoNary(FALSE)
LSpec == LInit /\ [][LNext]_lvars

ExactLast ==
  CASE last.op = "lit" -> Den(store, last.id) = {w \in Worlds : last.args[1] \in w}
    [] last.op = "not" -> Den(store, last.id) = Worlds \ Den(store, last.args[1])
    [] last.op = "and" -> Den(store, last.id) = {w \in Worlds : \A i \in 1..Len(last.args) : w \in Den(store, last.args[i])}
    [] last.op = "or"  -> Den(store, last.id) = {w \in Worlds : \E i \in 1..Len(last.args) : w \in Den(store, last.args[i])}
    [] OTHER -> TRUE
LInv == Canonical(store) /\ ExactLast /\ \A i \in Ids(store) : MonotoneSound(store, i)
\* handles are for ever: the store only grows
Grows == [][Len(store') >= Len(store) /\ SubSeq(store', 1, Len(store)) = store]_lvars
=============================================================================
