----------------------------- MODULE LoaderTrace -----------------------------
(***************************************************************************)
(* Trace validation for C13.  Events recorded from the real loaders:       *)
(*   reset(run, threads, lex, pre)       database with its prior content   *)
(*   load(fmt, terms, pfx, lines, lex, pre, post, panic, hasmodel, model)  *)
(* `lines` is the abstract document ([kind, a, b, c, d]: 0 run of a blank  *)
(* lines, 1 run of a comment lines, 2 prefix declaration pfx[a], 3 triple  *)
(* terms[a] terms[b] terms[c] in graph terms[d] (0 = default)), `pre` and  *)
(* `post` are the lexical quads of the database before / after the call    *)
(* (indices into the string table `lex`).  Every load must be the action   *)
(* Load(fmt, doc) of Loader.tla:  post = store \cup Stored(doc), where the *)
(* store is what the specification accumulated so far.  A load that is not *)
(* prints FAIL with a symptom and the rest of the run is skipped.          *)
(***************************************************************************)
EXTENDS Loader, Json, IOUtils, TLC

Rec == ndJsonDeserialize(IOEnv.TRACE)

VARIABLES l, run, bad
vars == <<store, l, run, bad>>

ToSet(sq) == {sq[i] : i \in 1..Len(sq)}
Ev == Rec[l]

Obs(tab, qs) == {<<tab[q[1]], tab[q[2]], tab[q[3]], IF q[4] = 0 THEN "" ELSE tab[q[4]]>> : q \in ToSet(qs)}

LineRec(e, a) ==
  CASE a[1] = 3 -> [kind |-> "triple", s |-> e.terms[a[2]], p |-> e.terms[a[3]], o |-> e.terms[a[4]],
                    g |-> IF a[5] = 0 THEN DefaultG ELSE e.terms[a[5]]]
    [] a[1] = 2 -> [kind |-> "prefix", name |-> e.pfx[a[2]][1], iri |-> e.pfx[a[2]][2]]
    [] a[1] = 1 -> [kind |-> "comment"]
    [] OTHER    -> [kind |-> "blank"]

Doc(e) == [i \in 1..Len(e.lines) |-> LineRec(e, e.lines[i])]

\* classification help only: a line all of whose terms are plain IRIs / prefixed names
PlainTerm(t) == t.k = "default" \/ t.sh \in {"iri", "pn"}
PlainLine(ln) == PlainTerm(ln.s) /\ PlainTerm(ln.p) /\ PlainTerm(ln.o) /\ PlainTerm(ln.g)

Symptom(e, d, pre, post) ==
  LET sd == Stored(d)
      exp == store \cup sd
      missDoc == sd \ post
      lostPrior == store \ post
      extra == post \ exp
      P == PrefixLines(d)
      plainHit == \E i \in TripleLines(d) :
                     /\ PlainLine(d[i])
                     /\ <<Canon(d, P, i, d[i].s), Canon(d, P, i, d[i].p), Canon(d, P, i, d[i].o), Canon(d, P, i, d[i].g)>> \notin post
  \* short codes (TLC wraps long tuples): P prior quads lost, D stored terms differ, M document triples
  \* missing, X spurious quads, +I a triple of plain IRIs is affected too
  IN  [s |-> IF e.panic THEN "panic"
             ELSE IF pre # store THEN "prechanged"
             ELSE (IF lostPrior # {} THEN "P" ELSE "")
                  \o (IF missDoc # {} /\ extra # {} THEN "D"
                      ELSE IF missDoc # {} THEN "M"
                      ELSE IF extra # {} THEN "X" ELSE "")
                  \o (IF plainHit THEN "+I" ELSE ""),
       nm |-> Cardinality(missDoc), nl |-> Cardinality(lostPrior), nx |-> Cardinality(extra)]

TInit == store = {} /\ l = 1 /\ run = 0 /\ bad = FALSE

Reset == /\ Ev.ev = "reset"
         /\ store' = Obs(Ev.lex, Ev.pre) /\ run' = Ev.run /\ bad' = FALSE

LoadEv ==
  /\ Ev.ev = "load"
  /\ IF bad THEN UNCHANGED <<store, run, bad>>
     ELSE LET d == Doc(Ev)
              pre == Obs(Ev.lex, Ev.pre)
              post == Obs(Ev.lex, Ev.post)
          IN  IF ~InSubset(Ev.fmt, d)
                THEN PrintT(<<"INFO", run, "skipped">>) /\ bad' = TRUE /\ UNCHANGED <<store, run>>
              ELSE /\ IF Ev.hasmodel /\ post # {<<m[1], m[2], m[3], "">> : m \in ToSet(Ev.model)}
                        THEN PrintT(<<"MODELDIFF", run>>) ELSE TRUE
                   /\ IF ~Ev.panic /\ pre = store /\ AddsExactly(store, d, post)
                        THEN store' = post /\ UNCHANGED <<run, bad>>
                        ELSE LET y == Symptom(Ev, d, pre, post)
                             IN  /\ PrintT(<<"FAIL", run, l, y.s, y.nm, y.nl, y.nx>>)
                                 /\ bad' = TRUE /\ UNCHANGED <<store, run>>

Next2 == l <= Len(Rec) /\ l' = l + 1 /\ (Reset \/ LoadEv)
TSpec == TInit /\ [][Next2]_vars

Consumed == IF TLCGet("stats").diameter - 1 = Len(Rec) THEN TRUE
            ELSE PrintT(<<"STUCK", TLCGet("stats").diameter, Len(Rec)>>) /\ FALSE
=============================================================================
