------------------------------ MODULE Roundtrip ------------------------------
(***************************************************************************)
(* Requirement of C14: exported data re-imports to the same dataset.       *)
(*                                                                         *)
(*     Import(fmt, Export(fmt, D)) = Restrict(fmt, D)                      *)
(*                                                                         *)
(* D is a set of lexical quads <<s, p, o, g>> (g = "" for the default      *)
(* graph); N-Quads carries every graph, N-Triples and Turtle the default   *)
(* graph only.  The property quantifies over datasets whose literals       *)
(* "cannot be mistaken for an IRI, blank node or quoted triple": a literal *)
(* is described by its sequence of character classes (alphabet below) and  *)
(* NotMistaken is the predicate on that sequence.                          *)
(*                                                                         *)
(* Character classes (one-character names):                                *)
(*   a ASCII letter (none of b f n r t u U)   n the letter n    0 digit    *)
(*   : colon   Q double quote   B backslash   L line feed   C carriage     *)
(*   return   T tab   S space   < > _ # . ^ @ themselves                   *)
(*   e non-ASCII alphanumeric (é ß 日)   v non-ASCII symbol (✓ 😀 U+FEFF)  *)
(*   w non-ASCII white space (U+00A0 U+2028 U+0085)                        *)
(*   r t  the letters r and t (only produced by escaping, never enumerated)*)
(***************************************************************************)
EXTENDS Naturals, Sequences, FiniteSets

Ws == {"S", "T", "L", "C", "w"}
AsciiAlpha == {"a", "n", "r", "t"}
AsciiAlnum == AsciiAlpha \cup {"0"}
Alnum == AsciiAlnum \cup {"e"}

StartsWith(s, p) == Len(s) >= Len(p) /\ SubSeq(s, 1, Len(p)) = p
EndsWith(s, p) == Len(s) >= Len(p) /\ SubSeq(s, Len(s) - Len(p) + 1, Len(s)) = p

MinOf(S) == CHOOSE x \in S : \A y \in S : x <= y

\* a scheme followed by a colon: letter (letter | digit | + | - | .)* ":"
LooksLikeIri(s) ==
  LET cols == {i \in 1..Len(s) : s[i] = ":"}
  IN  /\ cols # {}
      /\ LET c == MinOf(cols)
         IN  c > 1 /\ s[1] \in AsciiAlpha /\ \A j \in 2..(c - 1) : s[j] \in AsciiAlnum \cup {"."}

NotMistaken(cs) == /\ ~StartsWith(cs, <<"<", "<">>)        \* quoted triple
                   /\ ~StartsWith(cs, <<"_", ":">>)        \* blank node
                   /\ ~LooksLikeIri(cs)                    \* IRI

\* dg is the value that denotes the default graph in the fourth component
Restrict(fmt, D, dg) == IF fmt = "nq" THEN D ELSE {q \in D : q[4] = dg}

RoundTrip(fmt, D, back, dg) == back = Restrict(fmt, D, dg)
=============================================================================
