------------------------------ MODULE DictTrace ------------------------------
(***************************************************************************)
(* Trace validation for C15.  A trace is a concatenation of runs recorded  *)
(* from the real Dictionary / QuotedTripleStore / SparqlDatabase:          *)
(*   reset(run, hasmodel, model)                                           *)
(*   enc(db, s, id, ret, isq)        Dictionary::encode (or one sub-term   *)
(*                                   of encode_term_star / add_quad_parts /*)
(*                                   add_tagged_triple, id looked up)      *)
(*   qenc(db, spo, id, ret, isq)     QuotedTripleStore::encode (ditto)     *)
(*   dec(db, id, ...)                Dictionary::decode, decode_term,      *)
(*                                   SparqlDatabase::decode_any            *)
(*   qdec(db, id, ok, r)             QuotedTripleStore::decode             *)
(*   quad / graph / seed             population of the database            *)
(*   snap(db, raw, lex)              both maps of both stores, quads,      *)
(*                                   catalog, seeds (identifiers) and the  *)
(*                                   lexical projection through decode_any *)
(*   fork(from, to)                  deep copy of dictionary + quoted store*)
(*   union(a, b, out, ret, raw, lex) SparqlDatabase::union                 *)
(*   merge / qmerge(d, o, raw)       Dictionary / QuotedTripleStore::merge *)
(*   lost(db)                        a term encoded earlier in the run was *)
(*                                   not found in the maps                 *)
(*   exhausted(op)                   an encode refused because its         *)
(*                                   identifier range is used up (allowed) *)
(* D[k] is the abstract state of database k: the relations enc and qenc    *)
(* accumulate every (key, identifier) pair ever returned (the ghost        *)
(* `handed` of Dict.tla: they never shrink, so every later event and every *)
(* snapshot is checked against all earlier answers = Stable), plus quads,  *)
(* graph catalog and seeds on identifiers.  TLC computes every expected    *)
(* value: allowed identifiers (Terms!EncodeOK / QEncodeOK), decodings and  *)
(* renderings (Terms!Render), lexical denotations (Terms!Lex) and the      *)
(* union postcondition (Terms!UnionOK) on the denotations it computed      *)
(* itself from the recorded build events.                                  *)
(* A run that contradicts the requirement prints FAIL and is skipped; an   *)
(* event outside the preconditions (unknown component identifiers, merge   *)
(* of dictionaries that do not agree) prints INFO skipped.                 *)
(***************************************************************************)
EXTENDS DictCode, Json, IOUtils

Rec == ndJsonDeserialize(IOEnv.TRACE)
NDB == 6

VARIABLES l, run, D, status, model
vars == <<l, run, D, status, model>>

ToSet(sq) == {sq[i] : i \in 1..Len(sq)}
Once(sq)  == Cardinality(ToSet(sq)) = Len(sq)
EmptyDb   == [enc |-> {}, qenc |-> {}, quads |-> {}, graphs |-> {}, seeds |-> {}]
NoModel   == [has |-> "f"]
B2(b)     == IF b THEN "t" ELSE "f"

Ev == Rec[l]
KnownIn(x, id) == Known(x.enc, x.qenc, id)

\* ---- snapshots
AbsOfRaw(raw) == [enc |-> ToSet(raw.s2i), qenc |-> ToSet(raw.qc2i), quads |-> ToSet(raw.quads),
                  graphs |-> ToSet(raw.graphs), seeds |-> ToSet(raw.seeds)]
LexObs(lex)   == [quads |-> ToSet(lex.quads), graphs |-> ToSet(lex.graphs), quoted |-> ToSet(lex.quoted),
                  seeds |-> ToSet(lex.seeds)]
\* two maps per store kept in lock-step, every listing duplicate-free
RawLock(raw) ==
  /\ ToSet(raw.i2s) = Flip(ToSet(raw.s2i)) /\ Len(raw.i2s) = Len(raw.s2i) /\ Once(raw.s2i)
  /\ ToSet(raw.qi2c) = Flip(ToSet(raw.qc2i)) /\ Len(raw.qi2c) = Len(raw.qc2i) /\ Once(raw.qc2i)
  /\ Once(raw.quads) /\ Once(raw.graphs) /\ Once(raw.seeds)

WhySnap(e, x) ==
  LET a == AbsOfRaw(e.raw) IN
  IF ~RawLock(e.raw) THEN "maps-out-of-step"
  ELSE IF a.enc # x.enc THEN "plain-ids-changed"
  ELSE IF a.qenc # x.qenc THEN "quoted-ids-changed"
  ELSE IF a.quads # x.quads \/ a.graphs # x.graphs \/ a.seeds # x.seeds THEN "content-changed"
  ELSE IF LexObs(e.lex) # Lex(x) THEN "decode-any-disagrees"
  ELSE ""

\* ---- encoders
WhyEnc(e, x) ==
  IF e.id[1] = 3 THEN "term-not-stored"
  ELSE IF e.isq # "f" \/ ~IsPlain(e.id) THEN "plain-id-in-quoted-range"
  ELSE IF Has(x.enc, e.s) /\ Get(x.enc, e.s) # e.id THEN "id-of-known-term-changed"
  ELSE IF ~Has(x.enc, e.s) /\ HasV(x.enc, e.id) THEN "id-shared-by-distinct-terms"
  ELSE IF e.ret # e.id THEN "returned-id-is-not-the-stored-id"
  ELSE ""
WhyQEnc(e, x) ==
  IF e.id[1] = 3 THEN "term-not-stored"
  ELSE IF e.isq # "t" \/ ~IsQ(e.id) THEN "quoted-id-in-plain-range"
  ELSE IF Has(x.qenc, e.spo) /\ Get(x.qenc, e.spo) # e.id THEN "id-of-known-term-changed"
  ELSE IF ~Has(x.qenc, e.spo) /\ HasV(x.qenc, e.id) THEN "id-shared-by-distinct-terms"
  ELSE IF e.ret # e.id THEN "returned-id-is-not-the-stored-id"
  ELSE ""

\* ---- decoders
WhyDec(e, x) ==
  LET ren == Renderable(x.enc, x.qenc, e.id) IN
  IF (e.ok = "t") # HasV(x.enc, e.id) THEN "decode-definedness"
  ELSE IF e.ok = "t" /\ e.r # Inv(x.enc, e.id) THEN "decode-returns-other-term"
  ELSE IF (e.aok = "t") # ren \/ (e.tok = "t") # ren THEN "render-definedness"
  ELSE IF ren /\ (e.any # Render(x.enc, x.qenc, e.id) \/ e.term # Render(x.enc, x.qenc, e.id)) THEN "render-returns-other-term"
  ELSE ""
WhyQDec(e, x) ==
  IF (e.ok = "t") # HasV(x.qenc, e.id) THEN "decode-definedness"
  ELSE IF e.ok = "t" /\ e.r # Inv(x.qenc, e.id) THEN "decode-returns-other-term"
  ELSE ""

\* ---- union
WhyUnion(e, a, b) ==
  IF e.ret # "ok" THEN "panic"
  ELSE LET n == AbsOfRaw(e.raw) IN
       IF ~RawLock(e.raw) THEN "maps-out-of-step"
       ELSE IF ~DictOK(n.enc, n.qenc) THEN "result-dictionary-not-a-bijection"
       ELSE IF ~Closed(n) THEN "result-uses-dangling-or-unregistered-id"
       ELSE LET la == Lex(a) lb == Lex(b) lo == Lex(n) IN
            IF lo.quads # la.quads \cup lb.quads THEN "quads"
            ELSE IF lo.graphs # la.graphs \cup lb.graphs THEN "graph-identities"
            ELSE IF lo.quoted # la.quoted \cup lb.quoted THEN "quoted-terms"
            ELSE IF ~UnionOK(la, lb, lo) THEN "seeds"
            ELSE IF LexObs(e.lex) # lo THEN "decode-any-disagrees"
            ELSE ""

DumpEq(raw, m) ==
  /\ ToSet(raw.s2i) = ToSet(m.s2i) /\ ToSet(raw.qc2i) = ToSet(m.qc2i)
  /\ raw.next = m.next /\ raw.qnext = m.qnext
  /\ ToSet(raw.quads) = ToSet(m.quads) /\ ToSet(raw.graphs) = ToSet(m.graphs) /\ ToSet(raw.seeds) = ToSet(m.seeds)

---------------------------------------------------------------------------
Init == /\ l = 1 /\ run = 0 /\ status = "ok" /\ model = NoModel
        /\ D = [k \in 1..NDB |-> EmptyDb]

Fail(why)  == /\ PrintT(<<"FAIL", run, l, Ev.ev, why>>)
              /\ status' = "bad" /\ UNCHANGED <<run, D, model>>
Skip(why)  == /\ PrintT(<<"INFO", run, "skipped", Ev.ev, why>>)
              /\ status' = "skip" /\ UNCHANGED <<run, D, model>>
Keep       == UNCHANGED <<run, D, status, model>>
Set(k, x)  == D' = [D EXCEPT ![k] = x] /\ UNCHANGED <<run, status, model>>
Judge(why, k, x) == IF why = "" THEN Set(k, x) ELSE Fail(why)

Reset == /\ Ev.ev = "reset"
         /\ run' = Ev.run /\ status' = "ok" /\ model' = Ev.model
         /\ D' = [k \in 1..NDB |-> EmptyDb]

Step ==
  /\ Ev.ev # "reset"
  /\ IF status # "ok" THEN Keep
     ELSE LET e == Ev IN
       CASE e.ev = "enc" ->
              LET x == D[e.db] IN Judge(WhyEnc(e, x), e.db, [x EXCEPT !.enc = @ \cup {<<e.s, e.id>>}])
         [] e.ev = "qenc" ->
              LET x == D[e.db] IN
              IF \E i \in 1..3 : ~KnownIn(x, e.spo[i]) THEN Skip("component-not-handed-out")
              ELSE Judge(WhyQEnc(e, x), e.db, [x EXCEPT !.qenc = @ \cup {<<e.spo, e.id>>}])
         [] e.ev = "dec"  -> LET w == WhyDec(e, D[e.db]) IN IF w = "" THEN Keep ELSE Fail(w)
         [] e.ev = "qdec" -> LET w == WhyQDec(e, D[e.db]) IN IF w = "" THEN Keep ELSE Fail(w)
         [] e.ev = "quad" ->
              LET x == D[e.db] q == e.q IN
              IF (\E i \in 1..3 : ~KnownIn(x, q[i])) \/ ~(q[4] = DefaultG \/ HasV(x.enc, q[4])) THEN Skip("id-not-handed-out")
              ELSE Judge(IF e.ret \in {"-", B2(q \notin x.quads)} THEN "" ELSE "insert-return-value", e.db,
                         [x EXCEPT !.quads = @ \cup {q}, !.graphs = IF q[4] = DefaultG THEN @ ELSE @ \cup {q[4]}])
         [] e.ev = "graph" ->
              LET x == D[e.db] IN
              IF ~HasV(x.enc, e.g) THEN Skip("id-not-handed-out") ELSE Set(e.db, [x EXCEPT !.graphs = @ \cup {e.g}])
         [] e.ev = "seed" ->
              LET x == D[e.db] IN
              IF \E i \in 1..3 : ~KnownIn(x, e.t[i]) THEN Skip("id-not-handed-out")
              ELSE Set(e.db, [x EXCEPT !.seeds = Put(@, e.t, e.p)])
         [] e.ev = "snap" -> LET w == WhySnap(e, D[e.db]) IN IF w = "" THEN Keep ELSE Fail(w)
         [] e.ev = "fork" -> Set(e.to, [EmptyDb EXCEPT !.enc = D[e.from].enc, !.qenc = D[e.from].qenc])
         [] e.ev = "union" ->
              LET w == WhyUnion(e, D[e.a], D[e.b]) IN
              IF w # "" THEN Fail(w)
              ELSE /\ IF model.has = "t" /\ ~DumpEq(e.raw, model.union) THEN PrintT(<<"MODELDIFF", run, "union">>) ELSE TRUE
                   /\ Set(e.out, AbsOfRaw(e.raw))
         [] e.ev = "merge" ->
              LET x == D[e.d] o == D[e.o] IN
              /\ IF model.has = "t" /\ ~(ToSet(e.raw.s2i) = ToSet(model.merge.s2i) /\ e.raw.next = model.merge.next)
                   THEN PrintT(<<"MODELDIFF", run, "merge">>) ELSE TRUE
              \* outside merge's precondition the result need not be a bijection, but the receiver's own answers
              \* (both maps keep their entries: or_insert) must survive - "identifiers handed out earlier never change"
              /\ IF ~Compatible(x.enc, o.enc)
                   THEN IF x.enc \subseteq ToSet(e.raw.s2i) /\ Flip(x.enc) \subseteq ToSet(e.raw.i2s)
                          THEN Skip("dictionaries-do-not-agree")
                          ELSE Fail("merge-changed-identifier-handed-out-earlier")
                 ELSE Judge(IF ~RawLock(e.raw) THEN "maps-out-of-step"
                            ELSE IF ~MergeOK(x.enc, o.enc, ToSet(e.raw.s2i)) THEN "merged-dictionary-is-not-the-union" ELSE "",
                            e.d, [x EXCEPT !.enc = @ \cup o.enc])
         [] e.ev = "qmerge" ->
              LET x == D[e.d] o == D[e.o] IN
              /\ IF model.has = "t" /\ ~(ToSet(e.raw.qc2i) = ToSet(model.merge.qc2i) /\ e.raw.qnext = model.merge.qnext)
                   THEN PrintT(<<"MODELDIFF", run, "qmerge">>) ELSE TRUE
              /\ IF ~Compatible(x.qenc, o.qenc) \/ ~(o.enc \subseteq x.enc)
                   THEN IF x.qenc \subseteq ToSet(e.raw.qc2i) /\ Flip(x.qenc) \subseteq ToSet(e.raw.qi2c)
                          THEN Skip("quoted-stores-do-not-agree")
                          ELSE Fail("merge-changed-identifier-handed-out-earlier")
                 ELSE Judge(IF ~RawLock(e.raw) THEN "maps-out-of-step"
                            ELSE IF ~MergeOK(x.qenc, o.qenc, ToSet(e.raw.qc2i)) THEN "merged-store-is-not-the-union" ELSE "",
                            e.d, [x EXCEPT !.qenc = @ \cup o.qenc])
         [] e.ev = "lost" -> Fail("handed-out-term-not-found")
         [] e.ev = "exhausted" -> Keep      \* refusal at the end of an identifier range: the run ends here
         [] e.ev = "panic" -> Fail("panic")
         [] OTHER -> Fail("unknown-event")

Next == l <= Len(Rec) /\ l' = l + 1 /\ (Reset \/ Step)
Spec == Init /\ [][Next]_vars

Consumed == IF TLCGet("stats").diameter - 1 = Len(Rec) THEN TRUE
            ELSE PrintT(<<"STUCK", TLCGet("stats").diameter, Len(Rec)>>) /\ FALSE
=============================================================================
