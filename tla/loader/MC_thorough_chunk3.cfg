SPECIFICATION Spec
CONSTANTS
  ChunkSize = 3
  MaxLines = 5
  Alphabet <- LinesThorough
  Priors <- PriorSet
  Formats = {"nt", "n3", "ttl"}
  ReencodeN3 = TRUE
  SharePrefixesN3 = TRUE
  EmitDone = FALSE
INVARIANTS AddsExactlyDoc DictionaryBijective PriorKept
CHECK_DEADLOCK FALSE
