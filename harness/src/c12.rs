//! C12 driver: steps stream histories through the REAL `incremental_sds_plus` (carrying the
//! returned `SdsWithExpiry` from one evaluation to the next) and `naive_sds_plus`, and records
//! per evaluation what both returned.  One ndjson event per call pair.
//!
//! Lexical conventions (shared with tla/sds/*):
//!   * a constant is a list of segments; its string is the segments joined with "/";
//!   * a component IRI is a list of segments; its string is the joined segments plus a final "/";
//!   * a window/static triple carries a one-segment local predicate; the engine annotates it
//!     with the component IRI, so an annotated predicate "w1/n/p" is logged as ["w1","n","p"];
//!   * expiry u64::MAX (static, "never") is logged as INF = 1000000; any other value >= INF is
//!     logged as 999999 (no specification value equals it).
//!
//! case: {"windows":[{"iri":[..],"alpha":n}..], "static":[{"iri":[..],"triples":[[s,p,o]..]}..],
//!        "outputs":[[..]..], "rules":[{"body":[[T,T,T]..],"head":[[T,T,T]..]}..],
//!        "steps":[{"t":n,"win":[[[s,p,o,arrival]..] per window]}..], "hasmodel":b, "model":[..]}
//!   T = {"k":"c"|"v","x":[segments]}
use crate::util::*;
use datalog::cross_window_sds::{Sds, WindowData, WindowedTriple};
use datalog::reasoning::materialisation::cross_window_incremental::{incremental_sds_plus, SdsWithExpiry};
use datalog::reasoning::materialisation::cross_window_naive::naive_sds_plus;
use serde_json::{json, Value};
use shared::dictionary::Dictionary;
use shared::rule::Rule;
use shared::terms::Term;
use std::collections::HashMap;
use std::sync::{Arc, RwLock};

const INF: u64 = 1_000_000;

fn segs(v: &Value) -> Vec<String> {
    v.as_array().unwrap().iter().map(|s| s.as_str().unwrap().to_string()).collect()
}
fn cst(v: &Value) -> String {
    segs(v).join("/")
}
fn iri(v: &Value) -> String {
    let mut s = segs(v).join("/");
    s.push('/');
    s
}
fn split(s: &str) -> Value {
    let t = s.strip_suffix('/').unwrap_or(s);
    json!(t.split('/').collect::<Vec<_>>())
}
fn exp_out(e: u64) -> u64 {
    if e == u64::MAX { INF } else if e >= INF { INF - 1 } else { e }
}

fn term(dict: &Arc<RwLock<Dictionary>>, t: &Value) -> Term {
    if t["k"].as_str().unwrap() == "v" {
        Term::Variable(cst(&t["x"]))
    } else {
        Term::Constant(dict.write().unwrap().encode(&cst(&t["x"])))
    }
}

fn atoms(dict: &Arc<RwLock<Dictionary>>, v: &Value) -> Vec<(Term, Term, Term)> {
    v.as_array().unwrap().iter().map(|a| (term(dict, &a[0]), term(dict, &a[1]), term(dict, &a[2]))).collect()
}

fn build_sds(case: &Value, step: &Value) -> Sds {
    let mut sds = Sds::new();
    for (i, w) in case["windows"].as_array().unwrap().iter().enumerate() {
        let triples = step["win"][i].as_array().unwrap().iter().map(|x| WindowedTriple {
            subject: cst(&x[0]),
            predicate: cst(&x[1]),
            object: cst(&x[2]),
            event_time: x[3].as_u64().unwrap(),
        }).collect();
        sds.windows.insert(iri(&w["iri"]), WindowData { alpha: w["alpha"].as_u64().unwrap(), triples });
    }
    for g in case["static"].as_array().unwrap() {
        let triples = g["triples"].as_array().unwrap().iter().map(|x| (cst(&x[0]), cst(&x[1]), cst(&x[2]))).collect();
        sds.static_graphs.insert(iri(&g["iri"]), triples);
    }
    for o in case["outputs"].as_array().unwrap() {
        sds.output_iris.insert(iri(o));
    }
    sds
}

fn dec(dict: &Arc<RwLock<Dictionary>>, id: u32) -> String {
    dict.read().unwrap().decode(id).map(|s| s.to_string()).unwrap_or_else(|| format!("?undecodable{id}"))
}

fn run_case(out: &mut Out, run: &mut u64, case: &Value) {
    *run += 1;
    out.ev(json!({"ev":"reset","run":*run,"case":case}));
    let dict = Arc::new(RwLock::new(Dictionary::new()));
    let rules: Vec<Rule> = case["rules"].as_array().unwrap().iter().map(|r| Rule {
        premise: atoms(&dict, &r["body"]),
        negative_premise: Vec::new(),
        filters: Vec::new(),
        conclusion: atoms(&dict, &r["head"]),
    }).collect();
    let mut state: SdsWithExpiry = HashMap::new();
    for (k, step) in case["steps"].as_array().unwrap().iter().enumerate() {
        let t = step["t"].as_u64().unwrap();
        let sds = build_sds(case, step);
        let inc = guarded(|| incremental_sds_plus(&rules, &sds, &state, &dict, t));
        let naive = guarded(|| naive_sds_plus(&rules, &sds, &dict, t));
        let mut panic = false;
        let mut inc_rows: Vec<Value> = Vec::new();
        match inc {
            Ok(new_state) => {
                let mut rows: Vec<(String, String, String, String, u64)> = Vec::new();
                for (comp, m) in &new_state {
                    for (tr, e) in m {
                        rows.push((comp.clone(), dec(&dict, tr.subject), dec(&dict, tr.predicate), dec(&dict, tr.object), exp_out(*e)));
                    }
                }
                rows.sort();
                inc_rows = rows.iter().map(|(c, s, p, o, e)| json!([split(c), split(s), split(p), split(o), e])).collect();
                state = new_state; // the engine carries the returned state to the next evaluation
            }
            Err(_) => panic = true,
        }
        let mut naive_rows: Vec<Value> = Vec::new();
        match naive {
            Ok(res) => {
                let mut rows: Vec<(String, String, String, String)> = Vec::new();
                for (comp, v) in &res {
                    for tr in v {
                        rows.push((comp.clone(), dec(&dict, tr.subject), dec(&dict, tr.predicate), dec(&dict, tr.object)));
                    }
                }
                rows.sort();
                naive_rows = rows.iter().map(|(c, s, p, o)| json!([split(c), split(s), split(p), split(o)])).collect();
            }
            Err(_) => panic = true,
        }
        out.ev(json!({"ev":"step","run":*run,"k":k + 1,"t":t,"win":step["win"],
                      "inc":inc_rows,"naive":naive_rows,"panic":panic}));
    }
}

// ------------------------------------------------------------------ random histories (L3)

fn c(s: &str) -> Value {
    json!([s])
}
fn tc(s: &Value) -> Value {
    json!({"k":"c","x":s})
}
fn tv(s: &str) -> Value {
    json!({"k":"v","x":[s]})
}

fn gen_case(rng: &mut Rng, maxsteps: u64) -> Value {
    // component IRIs, some nested so that prefix routing matters
    let mut pool: Vec<Vec<&str>> = vec![vec!["w1"], vec!["w2"], vec!["w1", "n"], vec!["w3"], vec!["g"], vec!["g", "x"],
                                        vec!["o"], vec!["o", "r"], vec!["w2", "m"], vec!["w1", "n", "k"]];
    rng.shuffle(&mut pool);
    let nw = rng.range(1, 4) as usize;
    let ns = rng.below(3) as usize;
    let no = rng.range(1, 2) as usize;
    let wins: Vec<Value> = pool[..nw].iter().map(|p| json!(p)).collect();
    let stats: Vec<Value> = pool[nw..nw + ns].iter().map(|p| json!(p)).collect();
    let outs: Vec<Value> = pool[nw + ns..nw + ns + no].iter().map(|p| json!(p)).collect();
    let consts = ["a", "b", "c", "d"];
    let nconst = rng.range(2, 4) as usize;
    let locals = ["p", "q", "r"];
    let nloc = rng.range(1, 3) as usize;
    let alphas: Vec<u64> = (0..nw).map(|_| if rng.chance(1, 5) { rng.range(6, 12) } else { rng.range(1, 5) }).collect();
    let windows: Vec<Value> = (0..nw).map(|i| json!({"iri": wins[i], "alpha": alphas[i]})).collect();
    // static content
    let statics: Vec<Value> = stats.iter().map(|g| {
        let n = rng.range(0, 3);
        let mut ts: Vec<Value> = Vec::new();
        for _ in 0..n {
            let t = json!([c(consts[rng.below(nconst as u64) as usize]), c(locals[rng.below(nloc as u64) as usize]), c(consts[rng.below(nconst as u64) as usize])]);
            if !ts.contains(&t) { ts.push(t); }
        }
        json!({"iri": g, "triples": ts})
    }).collect();
    // pool of <= 12 stream triples (window index, s, p, o)
    let npool = rng.range(2, 12);
    let mut tpool: Vec<(usize, Value, Value, Value)> = Vec::new();
    for _ in 0..npool {
        let e = (rng.below(nw as u64) as usize, c(consts[rng.below(nconst as u64) as usize]),
                 c(locals[rng.below(nloc as u64) as usize]), c(consts[rng.below(nconst as u64) as usize]));
        if !tpool.contains(&e) { tpool.push(e); }
    }
    // predicates usable in rules: component ++ local
    let ann = |comp: &Value, l: &str| -> Value {
        let mut v = segs(comp);
        v.push(l.to_string());
        json!(v)
    };
    let mut body_preds: Vec<Value> = Vec::new();
    for w in wins.iter().chain(stats.iter()).chain(outs.iter()) {
        for l in &locals[..nloc] { body_preds.push(ann(w, l)); }
    }
    let mut head_preds: Vec<Value> = Vec::new();
    for o in outs.iter() {
        for l in &locals[..nloc] { head_preds.push(ann(o, l)); head_preds.push(ann(o, l)); }
    }
    for w in wins.iter().chain(stats.iter()) {
        head_preds.push(ann(w, locals[rng.below(nloc as u64) as usize]));
    }
    // predicates that can have facts: listed stream/static predicates, later also conclusions of earlier rules
    let mut live: Vec<Value> = Vec::new();
    for e in &tpool {
        let p = ann(&wins[e.0], e.2[0].as_str().unwrap());
        if !live.contains(&p) { live.push(p); }
    }
    for g in &statics {
        for t in g["triples"].as_array().unwrap() {
            let p = ann(&g["iri"], t[1][0].as_str().unwrap());
            if !live.contains(&p) { live.push(p); }
        }
    }
    let vars = ["x", "y", "z", "u"];
    let nrules = rng.range(1, 5);
    let mut rules: Vec<Value> = Vec::new();
    for _ in 0..nrules {
        let nb = match rng.below(6) { 0 | 1 => 1, 2 | 3 | 4 => 2, _ => 3 };
        let mut body: Vec<Value> = Vec::new();
        let mut bvars: Vec<&str> = Vec::new();
        for i in 0..nb {
            // chain-like joins are the common shape; sometimes a free shape or a constant
            let (s, o) = if rng.chance(3, 5) { (vars[i], vars[i + 1]) } else { (*rng.pick(&vars[..3]), *rng.pick(&vars[..3])) };
            let st = if rng.chance(1, 12) { tc(&c(consts[rng.below(nconst as u64) as usize])) } else { bvars.push(s); tv(s) };
            let ot = if rng.chance(1, 12) { tc(&c(consts[rng.below(nconst as u64) as usize])) } else { bvars.push(o); tv(o) };
            let p = if !live.is_empty() && rng.chance(7, 8) { rng.pick(&live).clone() } else { rng.pick(&body_preds).clone() };
            body.push(json!([st, tc(&p), ot]));
        }
        let nh = if rng.chance(1, 6) { 2 } else { 1 };
        let mut head: Vec<Value> = Vec::new();
        for _ in 0..nh {
            let pick = |rng: &mut Rng| -> Value {
                if bvars.is_empty() || rng.chance(1, 12) { tc(&c(consts[rng.below(nconst as u64) as usize])) } else { tv(*rng.pick(&bvars[..])) }
            };
            let s = pick(rng);
            let o = pick(rng);
            let p = rng.pick(&head_preds).clone();
            if !live.contains(&p) { live.push(p.clone()); }
            head.push(json!([s, tc(&p), o]));
        }
        rules.push(json!({"body": body, "head": head}));
    }
    rng.shuffle(&mut rules);
    // window-consistent history: a listed triple keeps its latest arrival, stays listed while
    // alive; after expiry it is dropped at once (eager) or stays listed for a while (lazy)
    let nsteps = rng.range(2, maxsteps);
    let lazy = rng.chance(1, 2);
    let busy = rng.range(1, 4); // arrival probability busy/8 per pool triple and step
    let mut listed: Vec<Option<u64>> = vec![None; tpool.len()];
    let mut prev_t: i64 = -1;
    let mut steps: Vec<Value> = Vec::new();
    for _ in 0..nsteps {
        let t = (prev_t + rng.range(1, 3) as i64) as u64;
        for (i, e) in tpool.iter().enumerate() {
            if rng.chance(busy, 8) {
                // arrival since the previous evaluation; rarely a late one (before it, never below the listed arrival)
                let lo = if rng.chance(1, 10) { listed[i].unwrap_or(0) } else { (prev_t + 1) as u64 };
                let a = rng.range(lo.min(t), t);
                if listed[i].map_or(true, |old| a >= old) { listed[i] = Some(a); }
            }
            if let Some(a) = listed[i] {
                let expired = a + alphas[e.0] <= t;
                if expired && (!lazy || rng.chance(1, 3)) { listed[i] = None; }
            }
        }
        let mut win: Vec<Vec<Value>> = vec![Vec::new(); nw];
        for (i, e) in tpool.iter().enumerate() {
            if let Some(a) = listed[i] { win[e.0].push(json!([e.1, e.2, e.3, a])); }
        }
        for w in win.iter_mut() { rng.shuffle(w); }
        steps.push(json!({"t": t, "win": win}));
        prev_t = t as i64;
    }
    json!({"windows": windows, "static": statics, "outputs": outs, "rules": rules, "steps": steps,
           "hasmodel": false, "model": []})
}

pub fn main(a: &Args) {
    let mut out = Out::create(a.req("out"));
    let mut run = 0u64;
    let cases = if let Some(f) = a.get("cases") {
        read_cases(f)
    } else {
        let mut rng = Rng::new(a.num("seed", 1));
        let n = a.num("random", 50);
        let maxsteps = a.num("maxsteps", 30);
        (0..n).map(|_| gen_case(&mut rng, maxsteps)).collect()
    };
    for c in &cases {
        run_case(&mut out, &mut run, c);
    }
    out.finish();
}
