"""C09 - a time window reports exactly the stream items of one aligned interval.

L1  tla/window/Window.tla (code-shaped CSPARQLWindow) against the requirement invariants,
    exhaustive over small streams/widths/slides.
L2  every complete behaviour of a smaller instance is printed by TLC, replayed on the real
    CSPARQLWindow (callback / channel / WindowRunner) and the recording is validated.
L3  seeded random long streams recorded from the real code, validated by WindowTrace.tla
    against the requirement (existential choice of the aligned interval per firing).
"""
import json
import os
import time
import vlib
from vlib import log

FAMILY = "window"


def sig_for(run_events):
    r = run_events[0]
    shape = "width<slide" if r["w"] < r["s"] else ("width=k*slide" if r["w"] % r["s"] == 0 else "width>slide,non-multiple")
    strat = "+".join(str(x[0]) for x in r.get("strat", []))
    plain = strat in ("close", "close+nonempty")
    return f"CSPARQLWindow::add_to_window|{shape}|nonempty={r['nonempty']}|" + ("" if plain else f"strategies={strat}|") + "firings-not-aligned-intervals"


def validate(ctx, trace_path, verdict, tag):
    res = vlib.tlc_trace(FAMILY, "WindowTrace.tla", "WindowTrace.cfg", trace_path, tag=f"c09-{tag}")
    runs = vlib.split_runs(vlib.read_ndjson(trace_path))
    failed = {f[0] for f in res["fail"]}
    for rid in sorted(failed):
        ev = runs[rid]
        verdict.violation(sig_for(ev), {"driver": "c09", "case": ev[0]["case"], "observed": ev[1:-1]})
    drift = [d[0] for d in res["modeldiff"] if d[0] not in failed]
    return runs, failed, drift, res


def model_validate(wd, trace_path, tag):
    """Binding of the code-shaped model: every recorded call must be an outcome Window!AddOutcomes allows in the model state
    reached so far (tla/window/WindowModelTrace.tla).  Lists with OnContentChange are left to the L2 alternatives (their
    outcome depends on an unobservable iteration order, a branch that dies would print a spurious MODELDIFF)."""
    events = vlib.read_ndjson(trace_path)
    keep, on = [], False
    for e in events:
        if e["ev"] == "reset":
            # ... and runs with more than 16 simultaneously active windows (width / slide): the model state holds every active
            # window with its content, which makes TLC spend minutes on a handful of such runs (the requirement-based judge
            # of WindowTrace.tla has no such state and covers them)
            on = not any(x[0] == "change" for x in e.get("strat", [])) and e["w"] <= 16 * e["s"]
        if on:
            keep.append(e)
    fp = os.path.join(wd, f"{tag}-model.ndjson")
    vlib.write_ndjson(fp, keep)
    res = vlib.tlc_trace(FAMILY, "WindowModelTrace.tla", "WindowModelTrace.cfg", fp, tag=f"c09-{tag}-model")
    return sorted({d[0] for d in res["modeldiff"]}), sum(1 for e in keep if e["ev"] == "reset"), res["states"]


def nontrivial(ev):
    # a run is non-trivial when at least one firing carried at least one item
    return any(f["items"] for e in ev if e["ev"] in ("add", "flush") for f in e["fired"])


def run(ctx):
    t0 = time.time()
    verdict = vlib.Verdict("C09", ctx.seed, ctx.tier)
    wd = vlib.workdir("c09")
    if ctx.replay:
        case = json.load(open(ctx.replay))["case"]["case"]
        vlib.write_ndjson(os.path.join(wd, "cases.ndjson"), [case])
        vlib.kverif(["c09", "--cases", os.path.join(wd, "cases.ndjson"), "--out", os.path.join(wd, "replay.ndjson")])
        validate(ctx, os.path.join(wd, "replay.ndjson"), verdict, "replay")
        return verdict.finish()

    thorough = ctx.tier == "thorough"
    # L1
    mc = vlib.tlc_mc(FAMILY, "MCWindow.tla", "MC_thorough.cfg" if thorough else "MC_quick.cfg", workers=8)
    log(f"[{time.time() - t0:.0f}s] L1 Window model: {mc['states']} distinct states, violated={mc['violated']}")
    if mc["uncovered"]:
        raise vlib.ToolError(f"vacuity: actions never taken in L1: {mc['uncovered']}")
    # L1b: the model without the eviction repair must violate ExactlyOnce (non-vacuity of the invariant)
    neg = vlib.tlc_mc(FAMILY, "MCWindow.tla", "MC_unfixed.cfg", workers=4, coverage=False, tag="c09-neg")
    if neg["violated"] != "ExactlyOnce":
        raise vlib.ToolError("non-vacuity check failed: historic eviction no longer violates ExactlyOnce in the model")

    # L1c: every other strategy list (NonEmptyContent first, Periodic, OnContentChange, without OnWindowClose)
    mcs = vlib.tlc_mc(FAMILY, "MCWindow.tla", "MC_strat_thorough.cfg" if thorough else "MC_strat_quick.cfg", workers=8, tag="c09-strat", coverage=False, timeout=3000)
    log(f"[{time.time() - t0:.0f}s] L1 Window model, 8 further strategy lists: {mcs['states']} distinct states, violated={mcs['violated']}")
    if mcs["violated"]:
        raise vlib.ToolError(f"Window.tla violates {mcs['violated']} for a non-default strategy list: model and requirement disagree (not a verdict)")

    # L2: TLC behaviours -> real code.  With OnContentChange the model has several behaviours per stream (HashMap iteration
    # order): the alternatives are grouped and the observation must be one of them.
    behaviours, st = vlib.tlc_emit(FAMILY, "MCWindow.tla", "MC_emit_thorough.cfg" if thorough else "MC_emit_quick.cfg")
    b2, st2 = vlib.tlc_emit(FAMILY, "MCWindow.tla", "MC_strat_emit_thorough.cfg" if thorough else "MC_strat_emit_quick.cfg", tag="window-emit-strat")
    behaviours += b2
    kinds = ["callback", "channel", "runner"]
    groups = {}
    for b in behaviours:
        key = json.dumps([b["w"], b["s"], b["strat"], b["stream"]])
        g = groups.setdefault(key, {"b": b, "alts": []})
        alt = [{"ts": f["ts"], "items": f["items"]} for f in b["fired"]]
        if alt not in g["alts"]:
            g["alts"].append(alt)
    cases = []
    for n, g in enumerate(groups.values()):
        b = g["b"]
        cases.append({"w": b["w"], "s": b["s"], "nonempty": any(x[0] == "nonempty" for x in b["strat"]), "strat": b["strat"], "kind": kinds[n % 3],
                      "items": [[i + 1, t] for i, t in enumerate(b["stream"])], "hasmodel": True,
                      "model": g["alts"], "mflush": {"items": b["flush"]["items"]}})
    vlib.write_ndjson(os.path.join(wd, "l2cases.ndjson"), cases)
    vlib.kverif(["c09", "--cases", os.path.join(wd, "l2cases.ndjson"), "--out", os.path.join(wd, "l2.ndjson")])
    runs2, failed2, drift2, res2 = validate(ctx, os.path.join(wd, "l2.ndjson"), verdict, "l2")
    log(f"[{time.time() - t0:.0f}s] L2 replayed {len(cases)} TLC behaviours: {len(failed2)} rejected, {len(drift2)} differ from the code-shaped model only")

    # L3: random long streams
    n3 = 6000 if thorough else 600
    vlib.kverif(["c09", "--random", n3, "--seed", ctx.seed, "--maxlen", 80 if thorough else 50, "--out", os.path.join(wd, "l3.ndjson")])
    runs3, failed3, drift3, res3 = validate(ctx, os.path.join(wd, "l3.ndjson"), verdict, "l3")
    log(f"[{time.time() - t0:.0f}s] L3 validated {len(runs3)} recorded runs: {len(failed3)} rejected")
    mdrift3, mruns3, mstates3 = model_validate(wd, os.path.join(wd, "l3.ndjson"), "l3")
    mdrift3 = [r for r in mdrift3 if r not in failed3]
    log(f"[{time.time() - t0:.0f}s] L3 model binding: {mruns3} recorded runs stepped through Window.tla call by call: {len(mdrift3)} leave the model")

    if mc["violated"] and not (failed2 or failed3):
        raise vlib.ToolError(f"L1 invariant {mc['violated']} violated in the model but not reproduced on the code: model out of date")
    if mdrift3 and not verdict.violations:
        print(f"MODEL-DRIFT: property=C09 {len(mdrift3)} recorded run(s) satisfy the requirement but are not behaviours of Window.tla (first: run {mdrift3[0]})")
    if drift2 and not verdict.violations:
        log(f"MODEL-DRIFT: {len(drift2)} behaviours where the code differs from Window.tla while the requirement holds "
            f"(update the code-shaped model); not a verdict")

    rc = verdict.finish()
    allruns = list(runs2.values()) + list(runs3.values())
    distinct = {vlib.case_hash(ev[0]["case"]) for ev in allruns if nontrivial(ev)}
    sample = runs3[sorted(runs3)[0]]
    cov = {
        "states": mc["states"], "transitions": mc["generated"],
        "traces_validated_against_impl": len(allruns),
        "samples": [{"case": sample[0]["case"], "observed": sample[1:-1][:6]},
                    {"tlc_behaviour": behaviours[len(behaviours) // 2]}],
        "evaluations": len(allruns), "distinct_nontrivial": len(distinct),
        "rule": "L2: every complete behaviour of the emit instance; L3: seeded random streams (width<slide, multiples, "
                "non-multiples, duplicate items/timestamps, gaps). Distinct by hash of (w,s,strategy,consumer kind,stream); "
                "non-trivial = at least one firing with a non-empty content.",
        "exhaustive": True,
        "l1_constants": "MC_thorough.cfg" if thorough else "MC_quick.cfg",
        "l2_behaviours": len(cases), "l2_streams_with_several_model_outcomes": sum(1 for c in cases if len(c["model"]) > 1),
        "l1_strategy_lists_states": mcs["states"], "l3_runs": len(runs3), "model_drift": len(drift2), "l3_runs_stepped_through_model": mruns3, "l3_model_drift": len(mdrift3),
        "trace_states": res2["states"] + res3["states"] + mstates3,
    }
    vlib.write_evidence("C09", ctx.tier, ctx.seed, "model_checking", cov,
                        ["in-order streams (the property's precondition) - the generator never emits a decreasing timestamp",
                         "L1 exhaustive only within the constants of the cfg; beyond them evidence is trace validation of sampled runs",
                         "Tick::TimeDriven; strategy lists: OnWindowClose, +NonEmptyContent (either order), +Periodic, Periodic / NonEmptyContent alone, "
                         "and lists with OnContentChange (L1/L2 only; for these only 'nothing foreign' is required, see Window.tla)"],
                        time.time() - t0, len(verdict.violations))
    return rc
