"""C19 - inconsistency-tolerant answers are those true in every maximal repair.

L1  tla/repairs/RepairSearchImpl.tla (code-shaped compute_repairs: stack, `seen`, insertion-time
    maximality test, every HashSet iteration order as a nondeterministic permutation, final
    retain() pass of the fix) against tla/repairs/RepairsReq.tla: the kept sets are exactly the
    subset-maximal consistent subsets and the answers are exactly the facts of every repair, for
    every order; the laws of the requirement module are checked on every instance.  Negative
    control: the model without the final filter (historic code, F-C19) violates AllMaximal.
L2  TLC enumerates every (fact set, constraint set) of a small universe (MCRepairs ESpec) with
    the requirement's answers; each is executed on the real Reasoner::query_with_repairs several
    times with fresh hash states and validated by RepairsTrace.tla.
L3  seeded random fact sets / constraint sets / goals (query_with_repairs, repeated) and rule sets
    (infer_new_facts_semi_naive_with_repairs), validated by RepairsTrace.tla.
"""
import json
import os
import time
import vlib
from vlib import log

FAMILY = "repairs"
GOALS = [[-1, -2, -3], [-1, 11, -2], [-1, 12, -1], [1, -1, -2], [-1, -2, 2], [2, 11, -1]]
DEAD_ACTIONS = {"SkipSeen"}   # proven unreachable by invariant StackDistinct (kept because the code has the branch)


def sig_for(reset_ev, fail):
    """site | trigger class | symptom.  fail = [run, line, kind, symptom]"""
    case = reset_ev["case"]
    maxbody = max([len(b) for b in case["cons"]] + [0])
    if fail[2] == "mat":
        return f"Reasoner::infer_new_facts_semi_naive_with_repairs|rules={len(case.get('rules', []))},max-body={maxbody}|{fail[3]}"
    return f"Reasoner::query_with_repairs|max-body={maxbody}|{fail[3]}"


def part_seed(seed, part):
    """util::Rng streams of nearby seeds are shifted copies of each other (state0 = seed * golden + c), which makes
    the cases of seed s and s+1 largely identical; spread the (seed, part) pairs over the 56-bit range instead."""
    import hashlib
    return int(hashlib.sha1(f"C19:{seed}:{part}".encode()).hexdigest()[:14], 16)


def validate(trace_path, verdict, tag):
    res = vlib.tlc_trace(FAMILY, "RepairsTrace.tla", "RepairsTrace.cfg", trace_path, tag=f"c19-{tag}")
    runs = vlib.split_runs(vlib.read_ndjson(trace_path))
    failed = {}
    for f in res["fail"]:
        failed.setdefault(f[0], f)
    for rid, f in sorted(failed.items()):
        ev = runs[rid]
        verdict.violation(sig_for(ev[0], f), {"driver": "c19", "case": ev[0]["case"], "failing_line": f[1],
                                               "observed": [e.get("answers", e.get("final")) for e in ev[1:-1]][:12]},
                          detail=f"{f[2]}: {f[3]}")
    res["nontrivial"] = {i[0] for i in res["info"] if len(i) >= 4 and ((i[1] == "query" and i[2] > 0) or (i[1] == "mat" and (i[2] > 0 or i[3] > 0)))}
    return runs, failed, res


def case_key(ev):
    c = ev[0]["case"]
    return vlib.case_hash({k: c[k] for k in c if k not in ("reps", "model", "hasmodel")})


def run(ctx):
    t0 = time.time()
    verdict = vlib.Verdict("C19", ctx.seed, ctx.tier)
    wd = vlib.workdir("c19")
    if ctx.replay:
        case = json.load(open(ctx.replay))["case"]["case"]
        case = dict(case)
        case["reps"] = max(int(case.get("reps", 1)), 40)      # hash-order dependent behaviour: repeat
        vlib.write_ndjson(os.path.join(wd, "cases.ndjson"), [case])
        vlib.kverif(["c19", "--cases", os.path.join(wd, "cases.ndjson"), "--out", os.path.join(wd, "replay.ndjson")])
        validate(os.path.join(wd, "replay.ndjson"), verdict, "replay")
        return verdict.finish()

    thorough = ctx.tier == "thorough"
    # L1: code-shaped search (with the final filter) against the requirement
    mc = vlib.tlc_mc(FAMILY, "MCRepairs.tla", "MC_quick.cfg", workers=8)
    states, gen = mc["states"], mc["generated"]
    log(f"L1 RepairSearchImpl vs RepairsReq: {mc['states']} distinct states ({mc['generated']} generated), violated={mc['violated']}")
    if set(mc["uncovered"]) - DEAD_ACTIONS:
        raise vlib.ToolError(f"vacuity: actions never taken in L1: {mc['uncovered']}")
    mc_t = None
    if thorough:
        for cfg in ("MC_thorough.cfg", "MC_thorough3.cfg"):      # 2 nodes x <= 4 facts; 3 nodes x <= 3 facts
            mc_t = vlib.tlc_mc(FAMILY, "MCRepairs.tla", cfg, workers=8, coverage=False, tag="c19-l1t")
            states, gen = states + mc_t["states"], gen + mc_t["generated"]
            log(f"L1 ({cfg}): {mc_t['states']} distinct states, violated={mc_t['violated']}")
            if mc_t["violated"]:
                break
    # L1b negative control: the historic search (no final filter) keeps non-maximal subsets for some order
    neg = vlib.tlc_mc(FAMILY, "MCRepairs.tla", "MC_unfixed.cfg", workers=4, coverage=False, tag="c19-neg")
    if neg["violated"] != "AllMaximal":
        raise vlib.ToolError("non-vacuity check failed: the search without the final maximality filter no longer violates AllMaximal")

    # L2: every instance of the small universe, with the requirement's answers printed by TLC
    inst, st = vlib.tlc_emit(FAMILY, "MCRepairs.tla", "MC_emit_thorough.cfg" if thorough else "MC_emit_quick.cfg")
    reps2 = 10 if thorough else 6
    cases = []
    for n, b in enumerate(inst):
        cases.append({"kind": "query", "facts": b["facts"], "cons": b["cons"], "goal": GOALS[n % len(GOALS)], "reps": reps2,
                      "hasmodel": True, "model": b["answers"]})
    vlib.write_ndjson(os.path.join(wd, "l2cases.ndjson"), cases)
    vlib.kverif(["c19", "--cases", os.path.join(wd, "l2cases.ndjson"), "--seed", ctx.seed, "--out", os.path.join(wd, "l2.ndjson")])
    runs2, failed2, res2 = validate(os.path.join(wd, "l2.ndjson"), verdict, "l2")
    log(f"L2 {len(cases)} TLC-enumerated instances x {reps2} fresh hash states on the real code: {len(failed2)} rejected")

    # L3: random instances; the driver is started several times (separate processes = independent hash seeds)
    n3, reps3 = (24000, 20) if thorough else (800, 8)
    parts = 6 if thorough else 2
    runs3, failed3, infos, tstates = {}, {}, list(res2["info"]), res2["states"]
    distinct_nt = {case_key(runs2[r]) for r in res2["nontrivial"]}
    for part in range(parts):
        path = os.path.join(wd, f"l3-{part}.ndjson")
        vlib.kverif(["c19", "--random", n3 // parts, "--seed", part_seed(ctx.seed, part), "--reps", reps3, "--maxfacts", 8, "--out", path])
        r, f, res = validate(path, verdict, f"l3-{part}")
        for k, v in r.items():
            runs3[(part, k)] = v
        for k, v in f.items():
            failed3[(part, k)] = v
        infos += res["info"]
        tstates += res["states"]
        distinct_nt |= {case_key(r[k]) for k in res["nontrivial"]}
    log(f"L3 {len(runs3)} random cases x {reps3} repetitions: {len(failed3)} rejected")

    for m in (mc, mc_t):
        if m and m["violated"] and not (failed2 or failed3):
            raise vlib.ToolError(f"L1 {m['violated']} violated in the model but not reproduced on the code: model out of date")

    rc = verdict.finish()
    allruns = list(runs2.values()) + list(runs3.values())
    calls = sum(len(ev) - 2 for ev in allruns)
    skipped = sum(1 for i in infos if len(i) >= 2 and i[1] == "skipped")
    # non-trivial (counters printed by the trace specification): query with at least one conflict among the
    # facts; materialisation whose start is inconsistent or that derived something
    with_conf_and_ans = sum(1 for i in infos if len(i) >= 4 and i[1] == "query" and i[2] > 0 and i[3] > 0)
    s3 = runs3[sorted(runs3)[0]]
    cov = {
        "states": states, "transitions": gen,
        "traces_validated_against_impl": len(allruns),
        "samples": [{"case": s3[0]["case"], "observed": [e.get("answers", e.get("final")) for e in s3[1:4]]},
                    {"tlc_instance": inst[len(inst) // 2]}],
        "evaluations": calls, "distinct_nontrivial": len(distinct_nt),
        "rule": "one evaluation = one call of query_with_repairs / infer_new_facts_semi_naive_with_repairs on a fresh Reasoner "
                "(fresh hash state), judged by TLC; distinct by hash of (facts, constraints, goal, rules); non-trivial = the facts "
                "contain at least one conflict (query) / the start is inconsistent or something was derived (materialisation), "
                "counted by the trace specification",
        "exhaustive": True,
        "l1_constants": "MC_quick.cfg" + ("+MC_thorough.cfg+MC_thorough3.cfg" if thorough else ""),
        "l1_negative_control": "MC_unfixed.cfg violates AllMaximal",
        "l2_instances": len(cases), "l3_cases": len(runs3), "repetitions_per_case": [reps2, reps3],
        "runs_with_conflicts_and_surviving_answers": with_conf_and_ans,
        "skipped_outside_precondition": skipped, "trace_states": tstates,
    }
    vlib.write_evidence("C19", ctx.tier, ctx.seed, "model_checking", cov,
                        ["constraints are positive bodies with >= 1 atom and no filters (violates_constraints ignores filters; an empty body never matches)",
                         "fact sets of at most 8 facts (all subsets are enumerated by TLC); L1/L2 exhaustive only within the cfg constants",
                         "answers are compared as sets of goal instances (multiplicity of returned bindings is not part of the property)",
                         "repair-aware materialisation: only consistency of the final fact index is required, as the property states",
                         "hash orders are sampled (fresh SipHash keys per call, two processes), not enumerated; L1 enumerates all orders on the model"],
                        time.time() - t0, len(verdict.violations))
    return rc
