---- MODULE MCController ----
EXTENDS ControllerImpl
\* constants of the exhaustive runs
WeightsQuick    == {<<1, 2, 3>>}
WeightsThorough == {<<1, 2, 3>>, <<2, 2, 2>>, <<3, 1, 1>>, <<1, 1, 1>>, <<3, 3, 2>>, <<2, 3, 1>>, <<0, 2, 4>>, <<4, 1, 3>>}
KSchedQuick     == {<<1, 4, 2>>, <<2, 2, 2>>}
KSchedThorough  == {<<1, 1, 2>>, <<1, 4, 2>>, <<1, 8, 3>>, <<2, 2, 2>>, <<3, 3, 2>>}
KSchedCov       == {<<1, 4, 2>>}
====
