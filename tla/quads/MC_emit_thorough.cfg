SPECIFICATION ESpec
CONSTANTS
  Subj = {1,2}
  Pred = {2}
  Obj = {1,2}
  Named = {7,8}
  MaxQuads = 5
CONSTRAINT Bound
ACTION_CONSTRAINT Emit
VIEW View
CHECK_DEADLOCK FALSE
