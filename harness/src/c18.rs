//! C18 driver: backward chaining on the real `datalog::reasoning::Reasoner`.
//!
//! Terms in cases and events: positive integer = constant (dictionary id used verbatim),
//! negative integer = variable.  Goal variables -1,-2,-3 are called `names[0..3]` (default
//! A,B,C); rule variables -1..-4 are called `rnames[0..4]` (default X,Y,Z,W).  The names are
//! what the engine sees; the specification only sees the numbers.
//!
//! case {"facts":[[s,p,o]..],"rules":[{"prem":[[t,t,t]..],"concl":[[t,t,t]..]}..],"goal":[t,t,t],
//!       "names":[..],"rnames":[..],"cls":"..."}
//!   -> reset ; {"ev":"goal","instances":[[s,p,o]..],"n":raw answer count,"nonground":k,"panic":bool} ; end
//! `instances` = for every returned binding map, the goal with `resolve_term` applied to each
//! goal variable (0 where the variable stays unbound or resolves to a non-constant), sorted,
//! without duplicates.
use crate::util::*;
use datalog::reasoning::backward_chaining::resolve_term;
use datalog::reasoning::Reasoner;
use serde_json::{json, Value};
use shared::rule::Rule;
use shared::terms::{Term, TriplePattern};
use shared::triple::Triple;

const GOAL_DEFAULT: [&str; 3] = ["A", "B", "C"];
const RULE_DEFAULT: [&str; 4] = ["X", "Y", "Z", "W"];

fn name_of(case: &Value, key: &str, dflt: &[&str], t: i64) -> String {
    let k = (-t - 1) as usize;
    case.get(key).and_then(|n| n.get(k)).and_then(|s| s.as_str()).map(|s| s.to_string())
        .unwrap_or_else(|| dflt.get(k).map(|s| s.to_string()).unwrap_or_else(|| format!("U{}", k)))
}

fn term(case: &Value, key: &str, dflt: &[&str], v: &Value) -> Term {
    let t = v.as_i64().expect("term");
    if t > 0 { Term::Constant(t as u32) } else { Term::Variable(name_of(case, key, dflt, t)) }
}

fn pattern(case: &Value, key: &str, dflt: &[&str], v: &Value) -> TriplePattern {
    (term(case, key, dflt, &v[0]), term(case, key, dflt, &v[1]), term(case, key, dflt, &v[2]))
}

fn patterns(case: &Value, key: &str, dflt: &[&str], v: &Value) -> Vec<TriplePattern> {
    v.as_array().map(|a| a.iter().map(|p| pattern(case, key, dflt, p)).collect()).unwrap_or_default()
}

fn run_case(out: &mut Out, run: &mut u64, case: &Value) {
    *run += 1;
    let mut fsorted: Vec<Vec<u64>> = case["facts"].as_array().unwrap().iter()
        .map(|f| (0..3).map(|k| f[k].as_u64().unwrap()).collect()).collect();
    fsorted.sort();
    fsorted.dedup();
    let hasmodel = case.get("hasmodel").and_then(|v| v.as_bool()).unwrap_or(false);
    let model = if hasmodel { case["model"].clone() } else { json!([]) };
    out.ev(json!({"ev":"reset","run":*run,"facts":fsorted,"rules":case["rules"],"goal":case["goal"],
                  "hasmodel":hasmodel,"model":model,"case":case}));
    let goal = pattern(case, "names", &GOAL_DEFAULT, &case["goal"]);
    let res = guarded(|| {
        let mut r = Reasoner::new();
        for f in case["facts"].as_array().unwrap() {
            r.insert_ground_triple(Triple { subject: f[0].as_u64().unwrap() as u32, predicate: f[1].as_u64().unwrap() as u32, object: f[2].as_u64().unwrap() as u32 });
        }
        for ru in case["rules"].as_array().unwrap() {
            r.add_rule(Rule { premise: patterns(case, "rnames", &RULE_DEFAULT, &ru["prem"]), negative_premise: vec![], filters: vec![],
                              conclusion: patterns(case, "rnames", &RULE_DEFAULT, &ru["concl"]) });
        }
        let answers = r.backward_chaining(&goal);
        let mut inst: Vec<[u32; 3]> = Vec::new();
        let mut nonground = 0usize;
        for b in &answers {
            let mut t = [0u32; 3];
            let mut ground = true;
            for (k, g) in [&goal.0, &goal.1, &goal.2].into_iter().enumerate() {
                match resolve_term(g, b) {
                    Term::Constant(c) => t[k] = c,
                    _ => { ground = false; t[k] = 0; }
                }
            }
            if !ground { nonground += 1; }
            inst.push(t);
        }
        inst.sort();
        inst.dedup();
        (answers.len(), nonground, inst)
    });
    match res {
        Ok((n, nonground, inst)) => out.ev(json!({"ev":"goal","instances":inst.iter().map(|t| json!([t[0], t[1], t[2]])).collect::<Vec<_>>(),
                                                   "n":n,"nonground":nonground,"panic":false})),
        Err(_) => out.ev(json!({"ev":"goal","instances":[],"n":0,"nonground":0,"panic":true})),
    }
    out.ev(json!({"ev":"end","run":*run}));
}

// ---------------------------------------------------------------------------- generation

const P: i64 = 21; // derived predicate of the chain programs
const E: i64 = 22; // edge predicate

fn names_for(rng: &mut Rng, scheme: u64) -> (Value, &'static str) {
    match scheme {
        0 => (json!(["A", "B", "C"]), "fresh"),
        1 => {
            // names the engine generates itself: v<k>, small k in any order
            let mut ks: Vec<u64> = vec![0, 1, 2, 3, 4, 5];
            rng.shuffle(&mut ks);
            if rng.chance(1, 4) { ks[0] = rng.range(6, 25); }
            (json!([format!("v{}", ks[0]), format!("v{}", ks[1]), format!("v{}", ks[2])]), "engine")
        }
        _ => {
            let mut ns = vec!["X", "Y", "Z", "W"];
            rng.shuffle(&mut ns);
            (json!([ns[0], ns[1], ns[2]]), "rule")
        }
    }
}

fn goal_shape(rng: &mut Rng, s: i64, p: i64, o: i64) -> Value {
    // 0..3 variables; repeated variable; variable predicate
    match rng.below(12) {
        0 => json!([s, p, o]),
        1 | 2 => json!([s, p, -1]),
        3 | 4 => json!([-1, p, o]),
        5 | 6 => json!([-1, p, -2]),
        7 | 8 => json!([-1, p, -1]),
        9 => json!([-1, -2, -3]),
        10 => json!([-1, -2, -1]),
        _ => json!([s, -1, -2]),
    }
}

/// chain programs probing the depth bound from both sides
fn gen_chain(rng: &mut Rng) -> Value {
    let len = match rng.below(6) { 0 => rng.range(1, 4), 1 => rng.range(5, 8), 2 => 9, 3 => 10, 4 => 11, _ => 12 } as i64;
    let nodes: Vec<i64> = (1..=len + 1).collect();
    let mut facts: Vec<Value> = (0..len as usize).map(|i| json!([nodes[i], E, nodes[i + 1]])).collect();
    if rng.chance(1, 4) {
        facts.push(json!([nodes[0], P, nodes[0]])); // a base fact of the derived predicate
    }
    let base = json!({"prem": [[-1, E, -2]], "concl": [[-1, P, -2]]});
    let step = match rng.below(3) {
        0 => json!({"prem": [[-1, E, -2], [-2, P, -3]], "concl": [[-1, P, -3]]}),   // right recursion
        1 => json!({"prem": [[-1, P, -2], [-2, E, -3]], "concl": [[-1, P, -3]]}),   // left recursion
        _ => json!({"prem": [[-2, P, -3], [-1, E, -2]], "concl": [[-1, P, -3]]}),   // recursive premise first, join on the second
    };
    let rules = if rng.chance(1, 2) { vec![base, step] } else { vec![step, base] };
    let tgt = if rng.chance(2, 3) { nodes[len as usize] } else { *rng.pick(&nodes) };
    let src = if rng.chance(2, 3) { nodes[0] } else { *rng.pick(&nodes) };
    let goal = match rng.below(6) {
        0 => json!([src, P, tgt]),
        1 | 2 => json!([src, P, -1]),
        3 => json!([-1, P, tgt]),
        4 => json!([-1, P, -2]),
        _ => json!([-2, P, -1]),
    };
    rng.shuffle(&mut facts);
    json!({"cls": "chain", "facts": facts, "rules": rules, "goal": goal})
}

/// non-recursive programs: predicate k is only derived from predicates < k; any term shapes
fn gen_strat(rng: &mut Rng) -> Value {
    let nn = rng.range(2, 4) as usize;
    let nodes: Vec<i64> = (1..=nn as i64).collect();
    let preds: Vec<i64> = vec![11, 12, 13, 14];
    let nf = rng.range(1, 8);
    let mut facts: Vec<Value> = Vec::new();
    let mut guard = 0;
    while (facts.len() as u64) < nf && guard < 100 {
        guard += 1;
        let f = json!([*rng.pick(&nodes), *rng.pick(&preds[..2]), *rng.pick(&nodes)]);
        if !facts.contains(&f) { facts.push(f); }
    }
    let nr = rng.range(1, 3);
    let mut rules = Vec::new();
    for _ in 0..nr {
        let cp = rng.range(1, 3) as usize; // conclusion predicate index 1..3
        let np = match rng.below(6) { 0 => 1, 1..=4 => 2, _ => 3 };
        let mut prem = Vec::new();
        let mut vars: Vec<i64> = Vec::new();
        for _ in 0..np {
            let mut a = [0i64; 3];
            for (k, slot) in a.iter_mut().enumerate() {
                *slot = if k == 1 { preds[rng.below(cp as u64) as usize] }
                        else if rng.chance(80, 100) { -(rng.range(1, 4) as i64) } else { *rng.pick(&nodes) };
                if *slot < 0 && !vars.contains(slot) { vars.push(*slot); }
            }
            prem.push(json!([a[0], a[1], a[2]]));
        }
        let nc = if rng.chance(1, 5) { 2 } else { 1 };
        let mut concl = Vec::new();
        for _ in 0..nc {
            let mut c = [0i64; 3];
            for (k, slot) in c.iter_mut().enumerate() {
                *slot = if k == 1 { preds[cp] } else if !vars.is_empty() && rng.chance(70, 100) { *rng.pick(&vars) } else { *rng.pick(&nodes) };
            }
            concl.push(json!([c[0], c[1], c[2]]));
        }
        rules.push(json!({"prem": prem, "concl": concl}));
    }
    let (gs, gp, go) = (*rng.pick(&nodes), preds[rng.below(4) as usize], *rng.pick(&nodes));
    let goal = goal_shape(rng, gs, gp, go);
    json!({"cls": "stratified", "facts": facts, "rules": rules, "goal": goal})
}

/// one linear-recursive rule over a small graph with cycles (symmetry, reachability, swaps)
fn gen_cyclic(rng: &mut Rng) -> Value {
    let nn = rng.range(2, 3) as i64;
    let mut facts: Vec<Value> = Vec::new();
    for s in 1..=nn {
        // out-degree <= 2 keeps the number of SLD derivations of depth <= 10 small
        let mut outs: Vec<i64> = (1..=nn).collect();
        rng.shuffle(&mut outs);
        for o in outs.iter().take(rng.range(0, 2) as usize) {
            facts.push(json!([s, E, *o]));
        }
    }
    if facts.is_empty() { facts.push(json!([1, E, 2])); }
    if rng.chance(1, 3) { facts.push(json!([*rng.pick(&[1, 2]), P, *rng.pick(&[1, 2])])); }
    let rules = match rng.below(4) {
        0 => vec![json!({"prem": [[-1, E, -2]], "concl": [[-1, P, -2]]}), json!({"prem": [[-1, P, -2]], "concl": [[-2, P, -1]]})],
        1 => vec![json!({"prem": [[-1, E, -2]], "concl": [[-1, P, -2]]}), json!({"prem": [[-1, E, -2], [-2, P, -3]], "concl": [[-1, P, -3]]})],
        2 => vec![json!({"prem": [[-1, E, -2]], "concl": [[-2, E, -1]]})],
        _ => vec![json!({"prem": [[-1, P, -2], [-2, E, -3]], "concl": [[-1, P, -3]]}), json!({"prem": [[-1, E, -1]], "concl": [[-1, P, -1]]})],
    };
    let (gs, gp, go) = (rng.range(1, nn as u64) as i64, if rng.chance(3, 4) { P } else { E }, rng.range(1, nn as u64) as i64);
    let goal = goal_shape(rng, gs, gp, go);
    json!({"cls": "cyclic", "facts": facts, "rules": rules, "goal": goal})
}

fn gen_cases(seed: u64, n: u64) -> Vec<Value> {
    let mut rng = Rng::new(seed);
    let mut cases = Vec::new();
    for i in 0..n {
        let mut c = match i % 5 { 0 | 1 => gen_chain(&mut rng), 2 | 3 => gen_strat(&mut rng), _ => gen_cyclic(&mut rng) };
        let (names, scheme) = names_for(&mut rng, (i / 5) % 3);
        c["names"] = names;
        c["scheme"] = json!(scheme);
        cases.push(c);
    }
    cases
}

pub fn main(a: &Args) {
    let mut out = Out::create(a.req("out"));
    let mut run = 0u64;
    let cases = if let Some(f) = a.get("cases") { read_cases(f) } else { gen_cases(a.num("seed", 1), a.num("random", 100)) };
    for c in &cases {
        run_case(&mut out, &mut run, c);
    }
    out.finish();
}
