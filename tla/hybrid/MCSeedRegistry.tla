--------------------------- MODULE MCSeedRegistry ---------------------------
EXTENDS SeedRegistry
MCKeys == {[s |-> "a", t |-> 1, q |-> 0], [s |-> "a", t |-> 1, q |-> 1], [s |-> "b", t |-> 1, q |-> 0]}
\* negative control: an exclusive seed that is not entered in its group must break SnapshotsClosed / GroupsExact
ExclForgetful == \E g \in Groups, t \in Triples, p \in Probs :
                   LET o == RegisterExclusive(reg, g, t, p) IN
                   reg' = [o.reg EXCEPT !.groups = IF g \in DOMAIN reg.groups THEN reg.groups ELSE @] /\ ret' = o.ret
NextForgetful == Occ \/ Stat \/ ExclForgetful \/ Snap
SpecForgetful == Init /\ [][NextForgetful]_vars
=============================================================================
