SPECIFICATION Spec
CONSTANTS
  Consts = {"a"}
  NVars = 2
  Preds = {"p", "q"}
  PVars = {}
  MaxPrem = 2
  MaxConcl = 1
  MaxRules = 1
  NegAtoms = 0
  WithFilters = TRUE
  FConsts = {"1", "2", "3"}
  FPreds = {"p"}
  MaxFacts = 3
  Permute = FALSE
  Mode = "semi"
  Runs = 2
INVARIANTS ReachesModel OrderIndependent SecondRunEmpty NoDuplicates RoundsAreNew Sound SpecLaws
CHECK_DEADLOCK FALSE
