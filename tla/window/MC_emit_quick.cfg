SPECIFICATION Spec
CONSTANTS
  MaxTs = 6
  MaxLen = 4
  Widths = {1,2,3,4}
  Slides = {1,2,3}
  Strategies <- StratDefault
  FixEvict = TRUE
INVARIANTS Emit
CHECK_DEADLOCK FALSE
