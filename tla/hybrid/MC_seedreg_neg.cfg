SPECIFICATION SpecForgetful
CONSTANTS
  Triples = {1, 2}
  Groups = {0, 1}
  Probs = {2000, 500}
  MaxId = 2
  Keys <- MCKeys
INVARIANT Inv
PROPERTY NeverReused
PROPERTY ReplySound
CHECK_DEADLOCK FALSE
