#![allow(dead_code)]
mod util;
mod c19;
mod c18;
mod c05;
mod c07;
mod c08;
mod c14;
mod c13;
mod c15;
mod c06;
mod c02;
mod c04;
mod c09;
mod c12;
mod c16;
mod rsp;
mod sparql;
mod seedreg;
mod lineage;

fn main() {
    let argv: Vec<String> = std::env::args().collect();
    if argv.len() < 2 {
        eprintln!("usage: kverif <driver> [--opt val]...");
        std::process::exit(2);
    }
    util::quiet_panics();
    let a = util::Args::parse(&argv[2..]);
    match argv[1].as_str() {
        "c02" => c02::main(&a),
        "c04" => c04::main(&a),
        "c09" => c09::main(&a),
        "c12" => c12::main(&a),
        "c16" => c16::main(&a),
        "rsp" => rsp::main(&a),
        "sparql" => sparql::main(&a),
        "c06" => c06::main(&a),
        "c15" => c15::main(&a),
        "c13" => c13::main(&a),
        "c14" => c14::main(&a),
        "c08" => c08::main(&a),
        "c07" => c07::main(&a),
        "c05" => c05::main(&a),
        "c18" => c18::main(&a),
        "c19" => c19::main(&a),
        "seedreg" => seedreg::main(&a),
        "lineage" => lineage::main(&a),
        other => {
            eprintln!("unknown driver {other}");
            std::process::exit(2);
        }
    }
}
