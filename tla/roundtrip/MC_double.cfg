SPECIFICATION Spec
CONSTANTS
  Sigma <- SigmaAll
  Cases <- PlainSmall
  EscapeNT = TRUE
  DirectEncode = FALSE
  EmitDone = FALSE
INVARIANTS RoundTripPlain
CHECK_DEADLOCK FALSE
