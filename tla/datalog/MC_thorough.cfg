SPECIFICATION Spec
CONSTANTS
  Consts = {"a"}
  NVars = 3
  Preds = {"p", "q"}
  PVars = {}
  MaxPrem = 2
  MaxConcl = 1
  MaxRules = 1
  NegAtoms = 0
  WithFilters = FALSE
  FConsts = {"a", "b", "c"}
  FPreds = {"p"}
  MaxFacts = 3
  Permute = FALSE
  Mode = "semi"
  Runs = 2
INVARIANTS ReachesModel OrderIndependent SecondRunEmpty NoDuplicates RoundsAreNew Sound SpecLaws
CHECK_DEADLOCK FALSE
