"""C10 - each firing of a continuous query sees exactly the current window, nothing older.

L1  tla/rsp/Pipeline.tla: code-shaped model of the window processor (evict previous raw items,
    load current, materialise = delete last cycle's derived facts + infer + add, query, stream
    operator) and of the MultiThread worker fed through a FIFO channel; TLC checks it against the
    requirement of tla/rsp/Rsp.tla for every sequence of window contents over a small universe and
    every interleaving of feeder and worker.
L2  every sequence of non-empty window contents of a small model instance x stream operator, with the emissions the model
    predicts, replayed on the real engine ([RANGE 1 STEP 1], content k = the items with timestamp k).
L3  real engines built through RSPBuilder, fed seeded streams in SingleThread mode and in
    MultiThread mode under perturbed schedules (hooks: yield points + events under the store lock);
    TLC validates every firing (answers = query over exactly that content + derived facts; emission =
    stream operator output) and the equality of the multi-threaded emission sequence with the
    single-threaded one (tla/rsp/PipelineTrace.tla).
"""
import json
import os
import random
import time
import vlib
from vlib import log

FAMILY = "rsp"
NS = "http://e/"
SUBJ = [NS + f"i{k}" for k in range(4)]
OBJ = [NS + "i0", NS + "i1", NS + "o"]
P, Q, R = NS + "p", NS + "q", NS + "r"


def V(n):
    return ["v", n]


def C(x):
    return ["c", x]


RULESETS = [
    [],
    [{"prem": [[V("a"), C(P), V("b")]], "concl": [[V("a"), C(Q), V("b")]]}],
    [{"prem": [[V("a"), C(P), V("b")]], "concl": [[V("a"), C(Q), V("b")]]},
     {"prem": [[V("a"), C(Q), V("b")]], "concl": [[V("a"), C(R), V("b")]]}],
    [{"prem": [[V("a"), C(P), V("b")], [V("b"), C(P), V("c")]], "concl": [[V("a"), C(Q), V("c")]]}],
    [{"prem": [[V("a"), C(P), V("b")]], "concl": [[V("b"), C(Q), V("a")], [V("a"), C(R), V("a")]]}],
]


def tr(t):
    return "?" + t[1] if t[0] == "v" else f"<{t[1]}>"


def pr_rules(rules):
    out = ""
    for r in rules:
        out += "{ " + " ".join(f"{tr(a)} {tr(b)} {tr(c)} ." for a, b, c in r["prem"]) + " } => { " + \
               " ".join(f"{tr(a)} {tr(b)} {tr(c)} ." for a, b, c in r["concl"]) + " }\n"
    # no statement terminator: SimpleR2R::load_rules does not consume a '.' between rules (it would stop after the first rule)
    return out.rstrip("\n")


def gen_case(rng, i):
    w = f":w{i}"
    rules = RULESETS[i % len(RULESETS)]
    op = ["RSTREAM", "ISTREAM", "DSTREAM"][(i // len(RULESETS)) % 3]
    k = rng.random()
    if k < 0.5:
        q = [[V("x"), C(rng.choice([Q, Q, R, P])), V("y")]]
    elif k < 0.75:
        q = [[V("x"), C(rng.choice([Q, P])), V("y")], [V("y"), C(rng.choice([Q, P, R])), V("z")]]
    elif k < 0.9:
        q = [[V("x"), V("pp"), C(rng.choice(OBJ))]]
    else:
        q = [[C(rng.choice(SUBJ)), C(Q), V("y")]]
    slide = rng.choice([1, 1, 2, 2, 3])
    width = rng.choice([slide, slide, 2 * slide, slide + 1, 4, 5, max(1, slide - 1)])
    pushes, ts = [], rng.randint(0, 2)
    for _ in range(rng.randint(6, 22)):
        ts += rng.choice([0, 1, 1, 1, 2])
        pred = rng.choice([P, P, Q, Q, R])
        pushes.append({"stream": ":s1", "s": rng.choice(SUBJ), "p": pred, "o": rng.choice(OBJ), "ts": ts})
    text = (f"REGISTER {op} <http://out/stream> AS SELECT * FROM NAMED WINDOW {w} ON :s1 [RANGE {width} STEP {slide}] "
            "WHERE { WINDOW " + w + " { " + " ".join(f"{tr(a)} {tr(b)} {tr(c)} ." for a, b, c in q) + " } }")
    return {"query": text, "rules": pr_rules(rules), "mode": "single", "policy": "wait", "seed": 0, "static": "", "pushes": pushes, "windows": [w],
            "spec": {"op": op, "q": q, "rules": rules, "hasref": False, "ref": []}, "width": width, "slide": slide}


NAMES = {"a": NS + "i0", "b": NS + "i1", "o": NS + "o", "p": P, "q": Q}
MODEL_RULES = {"MC_emit_quick.cfg": RULESETS[1],
               "MC_emit_thorough.cfg": [{"prem": [[V("a"), C(P), V("b")]], "concl": [[V("a"), C(Q), V("b")]]},
                                        {"prem": [[V("a"), C(Q), V("b")]], "concl": [[V("b"), C(Q), V("a")]]}]}


def l2_cases(behaviours, rules, first_id):
    """A TLC behaviour of Pipeline.tla = a sequence of window contents + the predicted emissions.  On the real engine the k-th
    content is the set of items with timestamp k of a [RANGE 1 STEP 1] window (the last one is reported by stop()/flush());
    behaviours with an empty content are left out: a window without items is never opened, the engine has no such firing."""
    cases, seen = [], set()
    q = [[V("x"), C(Q), V("y")]]
    for b in behaviours:
        key = json.dumps([b["op"], b["fed"]])
        if key in seen or any(len(k) == 0 for k in b["fed"]):
            continue
        seen.add(key)
        w = f":m{first_id + len(cases)}"
        pushes = [{"stream": ":s1", "s": NAMES[t[0]], "p": NAMES[t[1]], "o": NAMES[t[2]], "ts": k + 1} for k, content in enumerate(b["fed"]) for t in content]
        model = [sorted(json.dumps({v: NAMES[x] for v, x in r["row"].items()}, sort_keys=True) for r in em for _ in range(r["n"])) for em in b["emitted"]]
        text = (f"REGISTER {b['op']} <http://out/stream> AS SELECT * FROM NAMED WINDOW {w} ON :s1 [RANGE 1 STEP 1] "
                "WHERE { WINDOW " + w + " { ?x <" + Q + "> ?y . } }")
        cases.append({"query": text, "rules": pr_rules(rules), "mode": "single" if len(cases) % 3 else "multi", "policy": "wait", "seed": len(cases) + 1, "static": "",
                      "pushes": pushes, "windows": [w], "spec": {"op": b["op"], "q": q, "rules": rules, "hasref": False, "ref": []}, "width": 1, "slide": 1,
                      "model": model})
    return cases


def per_firing_emission(events):
    out, cur = [], None
    for e in events:
        if e["ev"] == "fire":
            if cur is not None:
                out.append(cur)
            cur = []
        elif e["ev"] == "emit" and cur is not None:
            cur.append(e["row"])
    if cur is not None:
        out.append(cur)
    return out


def sig_for(case, why):
    return f"RSPEngine single-window|{case['mode']}|{case['spec']['op']}|rules={len(case['spec']['rules'])}|{why}"


def validate(trace, verdict, tag):
    res = vlib.tlc_trace(FAMILY, "PipelineTrace.tla", "PipelineTrace.cfg", trace, tag=f"c10-{tag}", heap="6g", timeout=3000)
    runs = vlib.split_runs(vlib.read_ndjson(trace))
    stuck = [rid for rid, ev in runs.items() if any(e["ev"] == "timeout" for e in ev)]
    if stuck:
        raise vlib.ToolError(f"{len(stuck)} engine run(s) did not reach quiescence within 60 s (worker / coordinator threads still alive): not a verdict")
    failed = {}
    for f in res["fail"]:
        failed.setdefault(f[0], f[1])
    for rid, why in sorted(failed.items()):
        case = runs[rid][0]["case"]
        verdict.violation(sig_for(case, why), {"driver": "rsp", "case": case, "why": why})
    return runs, failed, res


def run(ctx):
    t0 = time.time()
    verdict = vlib.Verdict("C10", ctx.seed, ctx.tier)
    wd = vlib.workdir("c10")
    if ctx.replay:
        case = json.load(open(ctx.replay))["case"]["case"]
        vlib.write_ndjson(os.path.join(wd, "cases.ndjson"), [case])
        vlib.kverif_restartable("rsp", os.path.join(wd, "cases.ndjson"), os.path.join(wd, "replay.ndjson"))
        validate(os.path.join(wd, "replay.ndjson"), verdict, "replay")
        return verdict.finish()
    thorough = ctx.tier == "thorough"
    mc = vlib.tlc_mc(FAMILY, "MCPipeline.tla", "MC_thorough.cfg" if thorough else "MC_quick.cfg", workers=8)
    log(f"L1 Pipeline model: {mc['states']} distinct states, violated={mc['violated']}")
    if mc["uncovered"]:
        raise vlib.ToolError(f"vacuity: actions never taken in L1: {mc['uncovered']}")
    neg = vlib.tlc_mc(FAMILY, "MCPipeline.tla", "MC_unfixed.cfg", workers=4, coverage=False, tag="c10-neg")
    if neg["violated"] is None:
        raise vlib.ToolError("non-vacuity check failed: the historic materialise order no longer violates the requirement in the model")

    # L2: every content sequence of the model instance, with the model's predicted emissions, on the real engine
    ecfg = "MC_emit_thorough.cfg" if thorough else "MC_emit_quick.cfg"
    beh, _st = vlib.tlc_emit(FAMILY, "MCPipeline.tla", ecfg, workers=4, tag="c10-emit")
    l2 = l2_cases(beh, MODEL_RULES[ecfg], 0)
    lp, lt = os.path.join(wd, "l2-cases.ndjson"), os.path.join(wd, "l2.ndjson")
    vlib.write_ndjson(lp, l2)
    vlib.kverif_restartable("rsp", lp, lt)
    runs0, failed0, res0 = validate(lt, verdict, "l2")
    drift0 = 0
    for rid, ev in runs0.items():
        if rid in failed0:
            continue
        # the engine also fires for windows that close empty (e.g. [0,1) before the first item): the model has no such firing
        got, cur = [], None
        for e in ev:
            if e["ev"] == "fire":
                cur = [] if e["items"] else None
                if cur is not None:
                    got.append(cur)
            elif e["ev"] == "emit" and cur is not None:
                cur.append(json.dumps(e["row"], sort_keys=True))
        got = [sorted(x) for x in got]
        if got != ev[0]["case"]["model"]:
            drift0 += 1
    log(f"L2 replayed {len(l2)} content sequences of the model (x stream operators; every third multi-threaded): {len(failed0)} rejected, "
        f"{drift0} differ from the model's predicted emissions only")
    if drift0 and not failed0:
        print(f"MODEL-DRIFT: property=C10 {drift0} replayed behaviour(s) satisfy the requirement but differ from Pipeline.tla's prediction")

    rng = random.Random(ctx.seed * 2654435761 % (2 ** 31))
    nstreams, nsched = (300, 12) if thorough else (45, 4)
    singles = [gen_case(rng, i) for i in range(nstreams)]
    sp, st = os.path.join(wd, "single-cases.ndjson"), os.path.join(wd, "single.ndjson")
    vlib.write_ndjson(sp, singles)
    vlib.kverif_restartable("rsp", sp, st)
    runs1, failed1, res1 = validate(st, verdict, "single")
    multis = []
    for rid, ev in sorted(runs1.items()):
        ref = per_firing_emission(ev)
        for k in range(nsched):
            c = json.loads(json.dumps(ev[0]["case"]))
            c["mode"], c["seed"] = "multi", ctx.seed * 1000 + rid * 31 + k + 1
            c["spec"]["hasref"], c["spec"]["ref"] = True, ref
            if k == 0 and rid % 15 == 1 and len(c["pushes"]) > 4:
                # the source pauses for more than a second of wall-clock time in the middle of the stream
                c["pushes"][len(c["pushes"]) // 2]["pause_ms"] = 1300
            multis.append(c)
    mp, mt = os.path.join(wd, "multi-cases.ndjson"), os.path.join(wd, "multi.ndjson")
    vlib.write_ndjson(mp, multis)
    vlib.kverif_restartable("rsp", mp, mt)
    runs2, failed2, res2 = validate(mt, verdict, "multi")
    log(f"L3 {len(runs1)} single-threaded runs ({len(failed1)} rejected), {len(runs2)} multi-threaded runs under perturbed schedules ({len(failed2)} rejected)")
    if mc["violated"] and not (failed0 or failed1 or failed2):
        raise vlib.ToolError(f"L1 invariant {mc['violated']} violated in the model but not reproduced on the code: model out of date")
    rc = verdict.finish()
    firings = sum(1 for runs in (runs0, runs1, runs2) for ev in runs.values() for e in ev if e["ev"] == "fire")
    distinct = set()
    for runs in (runs0, runs1, runs2):
        for ev in runs.values():
            if any(e["ev"] == "emit" for e in ev):
                c = ev[0]["case"]
                distinct.add(vlib.case_hash([c["query"], c["rules"], c["pushes"], c["mode"], c["seed"]]))
    smp = runs1[sorted(runs1)[0]]
    cov = {"states": mc["states"], "transitions": mc["generated"], "traces_validated_against_impl": len(runs0) + len(runs1) + len(runs2),
           "l2_model_behaviours_replayed": len(l2), "l2_model_drift": drift0,
           "samples": [{"query": smp[0]["case"]["query"], "rules": smp[0]["case"]["rules"], "first_events": [{k: v for k, v in e.items() if k != "case"} for e in smp[1:9]]}],
           "evaluations": len(runs0) + len(runs1) + len(runs2), "distinct_nontrivial": len(distinct),
           "rule": "seeded streams x 5 rule sets x {RSTREAM, ISTREAM, DSTREAM} x window parameters; each stream once single-threaded and under "
                   f"{nsched} perturbed multi-threaded schedules; distinct by (query, rules, stream, mode, schedule seed); non-trivial = at least one row emitted",
           "firings_validated": firings, "trace_states": res0["states"] + res1["states"] + res2["states"]}
    vlib.write_evidence("C10", ctx.tier, ctx.seed, "model_checking", cov,
                        ["window contents are taken from the fire event recorded by the hook under the store lock (their correctness is C09)",
                         "window queries are basic graph patterns; rules are positive N3 rules",
                         "schedules are perturbed at the hook yield points and by the feeder's pacing; not every interleaving is enumerated on the real code (L1 does that on the model)",
                         "the final firing produced by stop()/flush() is validated like any other firing"],
                        time.time() - t0, len(verdict.violations))
    return rc
