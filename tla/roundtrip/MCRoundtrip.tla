---------------------------- MODULE MCRoundtrip ----------------------------
(* Constants for the exhaustive runs of NQuadsImpl. *)
EXTENDS NQuadsImpl
SigmaAll == {"a", "n", "0", ":", "Q", "B", "L", "C", "T", "S", "<", ">", "_", "#", ".", "^", "@", "e", "v", "w"}
Plain(n) == {<<"nq", "obj", n>>, <<"nq", "graph", n>>, <<"nt", "obj", n>>}
Quoted(n) == {<<"nq", "qts", n>>, <<"nq", "qto", n>>, <<"nt", "qts", n>>, <<"nt", "qto", n>>}
QuickCases == Plain(3) \cup Quoted(2)
Thorough1 == {<<"nq", "obj", 4>>}
Thorough2 == {<<"nq", "graph", 4>>}
Thorough3 == {<<"nt", "obj", 4>>}
Thorough4 == Quoted(3)
PlainSmall == Plain(2)
NTSmall == {<<"nt", "obj", 2>>}
=============================================================================
